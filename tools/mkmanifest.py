#!/venv/bin/python
"""Regenerates MANIFEST.json from the table below and validates it against the schema."""
import json
import os
import sys

V = os.path.dirname(os.path.dirname(os.path.abspath(__file__)))

# id -> (category, technique, level text, level note, design ref)
CHECKS = {}


def add(pid, technique, text, note, category="exploration"):
    CHECKS[pid] = dict(category=category, technique=technique, text=text, note=note)


PBT = "property-based testing (Hypothesis), generated inputs against "
add(
    "C13",
    PBT + "an integer-arithmetic / exact-rational oracle; plus exhaustive enumeration of all 10^6 microsecond values for the ms floor",
    "Generated-input search over instants x offsets x spellings x durations x JSON data with an independent arithmetic oracle; the millisecond floor is enumerated completely over the microsecond field at fixed seconds. Sampling, not proof, over the 1970..2100 range.",
    "Trusts Python's datetime/timedelta/Fraction arithmetic, jsonschema + rfc3339-validator for the schema clause; offsets are whole minutes; |duration| <= 1e7 s.",
)

NOT_YET = {}


def main():
    props = [json.loads(l) for l in open(os.path.join(V, "properties.jsonl"))]
    checks = []
    na = []
    for p in props:
        pid = p["id"]
        if pid in CHECKS and os.path.exists(os.path.join(V, "props", pid.lower() + ".py")):
            c = CHECKS[pid]
            checks.append(
                {
                    "property_id": pid,
                    "quick_cmd": f"./check {pid} quick",
                    "thorough_cmd": f"./check {pid} thorough",
                    "evidence_file": f"evidence/{pid}.json",
                    "replay_cmd_template": f"./check {pid} --replay {{path}}",
                    "engine": "vlib.runner",
                    "level_claimed": {"category": c["category"], "text": c["text"], "design_ref": f"DESIGN.md section 4, {pid}"},
                    "level_note": c["note"],
                    "technique": c["technique"],
                }
            )
        else:
            na.append({"property_id": pid, "reason": NOT_YET.get(pid, "check not built yet in this session (design exists in DESIGN.md section 4); will be claimed once its check is registered")})
    doc = {
        "version": 1,
        "setup_cmd": "./setup.sh",
        "hooks": {
            "guard": "AW_CORE_VERIF",
            "enable": "none needed: aw-core is pure Python and every observation point is reachable from outside (sqlite3 trace callback, module-level datetime rebinding, XDG_* redirection); checks import /repo's working tree in a fresh process",
            "baseline_off_cmd": "cd /repo && /venv/bin/python -m pytest -ra -q -p no:cacheprovider --timeout=900 --continue-on-collection-errors",
            "source_commits": [],
            "add_only": True,
        },
        "engines": [
            {
                "name": "vlib.runner",
                "path": "vlib/runner.py",
                "serves_properties": [c["property_id"] for c in checks],
                "kind_free_text": "Hypothesis 6.168 property-based testing driver: 16 seeded worker processes per check, JSON cases = replay files, known-finding classification, evidence writer; atheris (libFuzzer) for C17; exhaustive enumeration where the domain is finite",
            }
        ],
        "checks": checks,
        "notes": "Every check: ./check <ID> quick|thorough; VERIF_SEED selects the run, VERIF_JOBS the worker count, VERIF_SCALE multiplies case counts, VERIF_REPO the tree under test (default /repo). Exit 0 held / 1 VIOLATION / 2 harness error. See DESIGN.md.",
        "not_applicable": na,
    }
    if not na:
        del doc["not_applicable"]
    with open(os.path.join(V, "MANIFEST.json"), "w") as f:
        json.dump(doc, f, indent=1)
        f.write("\n")
    import jsonschema

    schema = json.load(open("/root/.vp/MANIFEST.schema.json"))
    jsonschema.validate(doc, schema)
    print(f"MANIFEST.json: {len(checks)} checks, {len(na)} not claimed; valid")


if __name__ == "__main__":
    sys.exit(main())
