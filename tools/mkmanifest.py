#!/venv/bin/python
"""Regenerates MANIFEST.json from the table below and validates it against the schema."""
import json
import os
import sys

V = os.path.dirname(os.path.dirname(os.path.abspath(__file__)))

# id -> (category, technique, level text, level note, design ref)
CHECKS = {}


def add(pid, technique, text, note, category="exploration"):
    CHECKS[pid] = dict(category=category, technique=technique, text=text, note=note)


PBT = "property-based testing (Hypothesis), generated inputs against "
add(
    "C13",
    PBT + "an integer-arithmetic / exact-rational oracle; plus exhaustive enumeration of all 10^6 microsecond values for the ms floor",
    "Generated-input search over instants x offsets x spellings x durations x JSON data (a quarter of the cases with a value nested 120..900 levels deep, run with a fresh interpreter's stack budget) with an independent arithmetic oracle; the millisecond floor is enumerated completely over the microsecond field at fixed seconds. Sampling, not proof, over the 1970..2100 range.",
    "Trusts Python's datetime/timedelta/Fraction arithmetic, jsonschema + rfc3339-validator for the schema clause; offsets are whole minutes; |duration| <= 1e7 s.",
)

add(
    "C01",
    PBT + "an integer-arithmetic fidelity oracle and a mutate-then-reread ownership oracle, on all three backends; plus seeded bulk batches of random instants",
    "Generated events (local dates 1970..2100 at any offset, so instants down to 14 h before the UTC epoch; us durations, nested JSON) are inserted singly/bulk/mixed and read back; every object handed in or out is then mutated and all reads must be unchanged; one batch of 10 500 (thorough 70 000) events per SQL backend. Samples the ~4e15 instant space with boundary bias; not exhaustive.",
    "Only id-less insertion; JSON without NaN/Inf; stores on tmpfs files; trusts datetime arithmetic.",
)
add(
    "C02",
    "model-based " + PBT + "a reference per-bucket list model; the same generated operation history runs on memory, sqlite and peewee and is compared after every step; plus exhaustive enumeration of every history up to length 3 (thorough: 4) over a 13-operation alphabet",
    "Histories of up to 40 operations over 1-2 buckets with frequent timestamp/end ties; each backend must equal the list model (ids learnt, not predicted) after every operation; replace_last must hit the event a limit-1 read returned. Bounded history length.",
    "Preconditions as in the property (live ids for replace/upsert etc.); tie-breaking among equally-new events is left to the backend.",
)
add(
    "C03",
    PBT + "a brute-force interval oracle with the property's 2 ms edge band (MUST / MAY / NEVER sets), on all three backends",
    "Generated bucket contents (nested/overlapping/zero-length/24 h events) and windows (open-ended, zero-width, sub-ms, any offset) with limits; both directions checked (nothing missing, nothing extra), order, limit prefix, count band, clip shape. Extra phase: a 10 301-event bucket per backend in groups of three per instant, read whole, with limits around 10 000 and through windows (thorough: three more sizes).",
    "Windows within ~100 s of the base instant (or of any event edge), <= 10 events plus a short history of re-timings; base instants incl. the hours before the UTC epoch; 2 ms band and 24 h cap from the property.",
)
add(
    "C04",
    PBT + "a pure frame-condition oracle (API dump of all other buckets identical before/after every single operation) with adversarial ids and coinciding instants",
    "Operations on bucket A use ids live in other buckets, dead, negative, huge, and events copied from other buckets' instants; other buckets must read back identically or the operation be rejected.",
    "Integer ids; an exception counts as rejected.",
)
add(
    "C05",
    "model-based " + PBT + "a dict model of bucket metadata + events under create/update/delete/lookup histories incl. stale handles and non-existent ids; plus exhaustive enumeration of every history up to length 3 (thorough: 4) over an 11-operation alphabet on each backend",
    "After every step the listing equals the model (metadata as given, created as an instant, events as a multiset); error classes for non-existent ids are checked together with 'changes nothing'.",
    "No duplicate create; non-empty update values; omitted name not compared.",
)
add(
    "C07",
    PBT + "heartbeat_reduce as the reference for the standard get(1)/merge/replace_last|insert loop on all three backends, with other populated buckets sharing the store",
    "Constructive streams (zero-length heartbeats, starts at previous end, end ties) are ingested; final contents must equal heartbeat_reduce; after each heartbeat older events and other buckets must be untouched.",
    "heartbeat_reduce is trusted here and judged by C08.",
)
add(
    "C08",
    PBT + "an integer-microsecond statement of the hull rule and its left fold; plus exhaustive enumeration of a small scope (all lists of <= 3 events on a tiny grid x all pulsetimes)",
    "Pairs/lists in any order with overlaps, ties, zero/negative durations and pulsetimes constructed to sit exactly on the boundary; iff-direction of mergeability, result shape, fold equality, normal form, idempotence, coverage.",
    "Pulsetime is an integer number of microseconds (C07 also uses pulsetimes that are not); ms-grid timestamps.",
)
add(
    "C09",
    PBT + "brute-force O(n*m) interval set arithmetic on an integer ms grid (multiset equality, both directions); plus exhaustive enumeration of every pair of small lists on a tiny grid",
    "Touching/zero-length/identical/nested/one-spanning-many layouts, shuffled; intersection pieces as a multiset incl. id and data, non-modification of inputs; union as the unique list of maximal closed intervals.",
    "ms grid; closed-interval semantics for union; union may modify inputs.",
)
add(
    "C10",
    PBT + "an integer covered-set oracle (input plus exactly the gaps 0<g<=P); plus exhaustive enumeration of every small layout x labelling x pulsetime on a tiny grid",
    "Chains of gaps below/at/above the pulsetime with equal/differing neighbours and zero-length events; exact covered set, no overlap, positive lengths, per-label coverage, input unmodified.",
    "Inputs satisfy the property's precondition (non-overlapping, distinct timestamps).",
)
add(
    "C11",
    "grammar-based " + PBT + "an independent reference parser and an AST evaluator that applies the underlying functions to all arguments in order; metamorphic whitespace relation",
    "Typed programs over all 22 built-ins with nested calls/lists/dicts in any argument position, rebinding, aliasing, awkward strings; result equality with the reference and invariance under separator whitespace.",
    "No ';' or free backslashes in strings; whitespace only around , : = ;. The reference calls aw_transform / Bucket.get directly.",
)
add(
    "C12",
    PBT + "a before/after dump oracle over generated (annotating, failing) programs on all three backends, and a differential query_bucket vs direct windowed read",
    "Programs biased to in-place annotators, with corruptions that raise midway; store dump must be identical; query_bucket / eventcount must equal direct reads for windows with offsets, sub-ms edges, zero width.",
    "A failing query may raise anything.",
)
add(
    "C15",
    PBT + "an integer interval-subtraction oracle (list one unchanged + uncovered parts of list two as multisets); plus exhaustive enumeration of every pair of small lists on a tiny grid",
    "Sorted non-overlapping lists with containment both ways, spanning, shared edges, zero-length events; both directions, no overlap, inputs unmodified.",
    "Pieces are compared after cutting at list-one edges (a zero-length list-one event may split a piece); zero-length list-two pieces ignored.",
)
add(
    "C16",
    PBT + "grouping / run / permutation / partition oracles written directly from the property; plus exhaustive enumeration of all small event lists over a presence/value alphabet",
    "Event lists with missing keys, list-valued keys, equal values under different keys, duplicates; conservation of events and microseconds; inputs unmodified.",
    "Non-empty key lists; values without bools/floats; chunk maximality only on sorted gap-free input.",
)
add(
    "C17",
    "coverage-guided fuzzing (atheris/libFuzzer, oracle inside the target, root-cause bucketing) plus " + PBT + "a traceback-classifying oracle over random token text, corrupted valid programs and typed corruptions with expected error classes",
    "Every input must yield a value or a QueryException within 10 s; other exceptions are violations unless raised below a built-in's own body. Typed corruptions must give the documented class.",
    "Inputs <= 128 chars for the fuzzer; termination = returns within 10 s; atheris campaigns approximately reproducible, findings re-confirmed by plain replay.",
)
add(
    "C19",
    PBT + "a frame oracle (everything but the owned keys unchanged) and a reference matcher built on re.search",
    "Events x rule lists with overlapping rules, equal depths, empty regex, select_keys on missing/non-string values, unicode, unrelated values nested 120..900 levels deep (categorize, tag, split_url_events; run with a fresh interpreter's stack budget); categorize/tag values and the frame for all four transforms.",
    "Python's re is shared; select_keys=[] not generated; URL component values not judged; simplify_string is not given the deeply nested values (it deep-copies its input on the unchanged tree too).",
)
add(
    "C20",
    PBT + "a reference dict overlay, with tomllib validating the harness's TOML writer, for existing and absent user files",
    "Default/user trees up to three tables deep with type changes, table<->value conflicts, arrays, comments, sections in any order, inline tables, multi-line strings; overlay equality (type-sensitive), user file bytes unchanged, absent-file path stable over three loads, the user editing the (existing or generated) file between loads, XDG_CONFIG_HOME set but empty.",
    "No arrays of tables; multi-line strings only with an existing user file; documents that tomlkit itself refuses to parse are set aside and counted.",
)

add(
    "C06",
    "fault injection at every SQL statement boundary (sqlite3 trace callback + second connection) over Hypothesis-generated operation histories, judged by an observational prefix oracle; validated by real SIGKILL/_exit/exit child processes",
    "Every crash point between two SQL statements of every generated history is enumerated (not sampled) and the state a process death would leave is compared with the writer's per-operation states: prefix, no split, bucket ops durable, bounded tail, auto-commit. Real process deaths at generated statement indices (and timer kills in thorough) confirm that the second connection sees what a crash leaves.",
    "Process death, not power loss; SQLite's atomic commit trusted between boundaries; 'about 50' = alarm at 64 rows; row-wise between for multi-row operations.",
    category="fault_enumeration",
)
add(
    "C14",
    PBT + "a content-preservation oracle over generated legacy databases written through the legacy backend at its default location, in both profiles",
    "Legacy stores with unicode ids, names, nested data, arbitrary instants, offset-less creation times and up to 1300 (thorough: 70 000) events per bucket are migrated by constructing the default SQLite store - in this process or in a child process that reads everything and exits, the next process judging -, under several local time zones and with stale files in the data directory; buckets, metadata and the event multiset must be preserved and the legacy file untouched (rows and bytes).",
    "Event ids may be renumbered; one migration per process at a time.",
)
add(
    "C18",
    "fault injection with a controlled clock over Hypothesis-generated write histories (module-level datetime rebinding + second-connection observer); plus real-time child processes (4 in quick, 16 in thorough)",
    "For every event write issued >= 11 s (controlled clock handing out naive local time; epochs 2001/2023/2096; histories that cross the end of daylight saving; a second store alive in the same process) after the latest flush the write must be visible through a second connection when it returns; inter-arrival times from bursts to days; real 11-12 s sleeps without any patching confirm it (4 children in quick, 16 in thorough).",
    "The store must read the clock through its module's `datetime` (asserted; else exit 2); advances in (9, 11) s are not generated; bulk calls carry id-less events only.",
    category="fault_enumeration",
)

NOT_YET = {}


def main():
    props = [json.loads(l) for l in open(os.path.join(V, "properties.jsonl"))]
    checks = []
    na = []
    for p in props:
        pid = p["id"]
        if pid in CHECKS and os.path.exists(os.path.join(V, "props", pid.lower() + ".py")):
            c = CHECKS[pid]
            checks.append(
                {
                    "property_id": pid,
                    "quick_cmd": f"./check {pid} quick",
                    "thorough_cmd": f"./check {pid} thorough",
                    "evidence_file": f"evidence/{pid}.json",
                    "replay_cmd_template": f"./check {pid} --replay {{path}}",
                    "engine": "vlib.runner",
                    "level_claimed": {"category": c["category"], "text": c["text"], "design_ref": f"DESIGN.md section 4, {pid}"},
                    "level_note": c["note"],
                    "technique": c["technique"],
                }
            )
        else:
            na.append({"property_id": pid, "reason": NOT_YET.get(pid, "check not built yet in this session (design exists in DESIGN.md section 4); will be claimed once its check is registered")})
    doc = {
        "version": 1,
        "setup_cmd": "./setup.sh",
        "hooks": {
            "guard": "AW_CORE_VERIF",
            "enable": "none needed: aw-core is pure Python and every observation point is reachable from outside (sqlite3 trace callback, module-level datetime rebinding, XDG_* redirection); checks import /repo's working tree in a fresh process",
            "baseline_off_cmd": "cd /repo && /venv/bin/python -m pytest -ra -q -p no:cacheprovider --timeout=900 --continue-on-collection-errors",
            "source_commits": [],
            "add_only": True,
        },
        "engines": [
            {
                "name": "vlib.runner",
                "path": "vlib/runner.py",
                "serves_properties": [c["property_id"] for c in checks],
                "kind_free_text": "Hypothesis 6.168 property-based testing driver: 16 seeded worker processes per check, JSON cases = replay files, known-finding classification, evidence writer; atheris (libFuzzer) for C17; exhaustive enumeration where the domain is finite",
            }
        ],
        "checks": checks,
        "notes": "Every check: ./check <ID> quick|thorough; VERIF_SEED selects the run, VERIF_JOBS the worker count, VERIF_SCALE multiplies case counts, VERIF_REPO the tree under test (default /repo). Exit 0 held / 1 VIOLATION / 2 harness error. The process environment is varied per worker and deterministically: every second worker runs under a local time zone other than the ambient one (POSIX TZ strings, two with daylight saving), every fourth imports the tree with assert statements compiled out (as python -O does), every fourth has the library's loggers enabled down to DEBUG, PYTHONHASHSEED follows VERIF_SEED; a failing case's zone and configuration are stored in its replay file. See DESIGN.md (section 9 for what was built, 10 for the defects repaired in /repo, 12 for the sensitivity experiments).",
        "not_applicable": na,
    }
    with open(os.path.join(V, "MANIFEST.json"), "w") as f:
        json.dump(doc, f, indent=1)
        f.write("\n")
    import jsonschema

    schema = json.load(open("/root/.vp/MANIFEST.schema.json"))
    jsonschema.validate(doc, schema)
    print(f"MANIFEST.json: {len(checks)} checks, {len(na)} not claimed; valid")


if __name__ == "__main__":
    sys.exit(main())
