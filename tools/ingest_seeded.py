#!/venv/bin/python
"""Confirm and file the changes a sub-agent delivered in /tmp/seed-<ID>/_out/.

For each patchN.diff: in a fresh scratch worktree of /repo HEAD (not the agent's) check that
  - the demo passes on the clean tree,
  - the patch applies, the library still imports, and the repository's whole test suite passes,
  - the demo fails with the patch,
then store it as /verif/seeded/<ID>-<N>/{patch.diff, demo.py, meta.json} and remove the worktree.

usage: tools/ingest_seeded.py C10 [C11 ...]
"""
import json
import os
import shutil
import subprocess
import sys

V = os.path.dirname(os.path.dirname(os.path.abspath(__file__)))


def sh(cmd, cwd=None, env=None, timeout=1800):
    r = subprocess.run(cmd, shell=True, cwd=cwd, env=env, stdout=subprocess.PIPE, stderr=subprocess.STDOUT, text=True, timeout=timeout)
    return r.returncode, r.stdout


def main():
    args = sys.argv[1:]
    prefix, offset = "/tmp/seed-", 0
    if "--round2" in args:  # second round of sub-agents: /tmp/seed2-<ID>/_out, filed as <ID>-3, <ID>-4
        args.remove("--round2")
        prefix, offset = "/tmp/seed2-", 2
    if "--round4" in args:  # fourth round (hard-to-hit conjunctions): /tmp/seed4-<ID>/_out, filed as <ID>-5, <ID>-6
        args.remove("--round4")
        prefix, offset = "/tmp/seed4-", 4
    if "--round5" in args:  # fifth round (realistic pull requests with an accidental regression): /tmp/seed5-<ID>/_out, filed as <ID>-7, <ID>-8
        args.remove("--round5")
        prefix, offset = "/tmp/seed5-", 6
    if "--round6" in args:  # sixth round (regressions that show only in a particular environment or process configuration): /tmp/seed6-<ID>/_out, filed as <ID>-9, <ID>-10
        args.remove("--round6")
        prefix, offset = "/tmp/seed6-", 8
    if "--round7" in args:  # seventh round (one change per property, narrow input classes / multi-step histories): /tmp/r7-<ID>/_out, filed as <ID>-11
        args.remove("--round7")
        prefix, offset = "/tmp/r7-", 10
    if "--round8" in args:  # eighth round (as the seventh, but asked to stay away from the obvious corners): /tmp/r8-<ID>/_out, filed as <ID>-12
        args.remove("--round8")
        prefix, offset = "/tmp/r8-", 11
    round3 = "--round3" in args  # third round, organised by code area: /tmp/seed3-<S>/_out, filed as <S>-<n>; the property comes from metaN.json
    if round3:
        args.remove("--round3")
        prefix = "/tmp/seed3-"
    for pid in args:
        src = f"{prefix}{pid}/_out"
        for n in (1, 2, 3):
            patch = os.path.join(src, f"patch{n}.diff")
            demo = os.path.join(src, f"demo{n}.py")
            if not (os.path.exists(patch) and os.path.exists(demo)):
                continue
            name = f"{pid}-{n + offset}"
            wt = f"/tmp/awingest-{os.getpid()}-{name}"
            rc, out = sh(f"git -C /repo worktree add -q --detach {wt} HEAD")
            if rc:
                print(name, "worktree failed", out)
                continue
            try:
                os.makedirs(os.path.join(wt, "_out"))
                shutil.copy(demo, os.path.join(wt, "_out", f"demo{n}.py"))
                # private data/config/cache dirs: the repository's tests use default locations, which concurrent runs would share
                xdg = wt + "-xdg"
                env = dict(os.environ, PYTHONPATH=wt, PYTHONDONTWRITEBYTECODE="1", XDG_DATA_HOME=xdg + "/d", XDG_CONFIG_HOME=xdg + "/c", XDG_CACHE_HOME=xdg + "/k", HOME=xdg)
                os.makedirs(xdg, exist_ok=True)
                run_demo = f"/venv/bin/python _out/demo{n}.py"
                rc0, out0 = sh(run_demo, cwd=wt, env=env)
                rca, outa = sh(f"git apply {patch}", cwd=wt)
                if rca:  # /repo moved on while the sub-agent worked: merge three-way and keep the re-diffed change
                    rca, outa = sh(f"git apply --3way {patch} && git reset -q", cwd=wt)
                    if not rca:
                        _, fresh = sh("git diff -- aw_core aw_datastore aw_transform aw_query", cwd=wt)
                        patch = os.path.join(wt, "_out", "rediffed.diff")
                        open(patch, "w").write(fresh)
                if rca:
                    print(name, "REJECTED: patch does not apply:", outa[-300:])
                    continue
                rci, outi = sh('/venv/bin/python -c "import aw_core, aw_datastore, aw_transform, aw_query; print(aw_core.__file__)"', cwd=wt, env=env)
                rct, outt = sh("/venv/bin/python -m pytest -q -p no:cacheprovider 2>&1 | tail -1", cwd=wt, env=env)
                rc1, out1 = sh(run_demo, cwd=wt, env=env)
                ok = rc0 == 0 and rci == 0 and wt in outi and " passed" in outt and "failed" not in outt and rc1 != 0
                meta = {}
                mp = os.path.join(src, f"meta{n}.json")
                if os.path.exists(mp):
                    try:
                        meta = json.load(open(mp))
                    except Exception:
                        meta = {"raw": open(mp).read()}
                prop = pid
                if round3:
                    prop = str(meta.get("property", "")).strip().upper()[:3]
                    if not (len(prop) == 3 and prop[0] == "C" and prop[1:].isdigit()):
                        print(name, "REJECTED: meta names no property:", meta.get("property"))
                        continue
                meta.update(
                    {
                        "property": prop,
                        "origin": "written by an independent sub-agent that saw only the property text and a scratch worktree" + (" (second round: it was also told the one-line summaries of the first-round changes for this property, to avoid repeating them)" if offset == 2 else "") + (" (fourth round: asked for changes needing a conjunction of conditions that a minute of random generation has a real chance of missing; told all earlier ideas for this property)" if offset == 4 else "") + (" (fifth round: asked for a realistic pull request - optimisation, refactoring, feature or modernisation of 15-80 lines - whose accidental side effect breaks the property; told all earlier ideas for this property)" if offset == 6 else "") + (" (sixth round: asked for a regression that is invisible in the test suite's environment - UTC, C locale, one store per process, fresh directories - and shows only in another realistic environment or process configuration; told all earlier ideas for this property)" if offset == 8 else "") + (" (seventh round: one change per property, asked for something that needs a multi-step history, an unusual but legal input, a fault at a particular point or two cooperating sites; told nothing about earlier ideas)" if offset == 10 else "") + (" (eighth round: as the seventh, but told that the obvious ideas are assumed to be caught and asked for a less-visited corner - the peewee or sqlite specifics, the Datastore/Bucket wrapper layer, rarely used arguments, the interplay of two modules)" if offset == 11 else "") + (" (third round: the agent was given a code area and all twenty property statements, and the summaries of earlier changes in that area to avoid)" if round3 else ""),
                        "confirmed": {
                            "demo_on_clean_tree": f"exit {rc0}: {out0.strip()[-200:]}",
                            "test_suite_with_patch": outt.strip(),
                            "demo_with_patch": f"exit {rc1}: {out1.strip()[-300:]}",
                            "commands": [f"cd <worktree> && PYTHONPATH=<worktree> {run_demo}", "git apply patch.diff", "PYTHONPATH=<worktree> /venv/bin/python -m pytest -q -p no:cacheprovider"],
                            "base_commit": sh("git -C /repo rev-parse --short HEAD")[1].strip(),
                        },
                    }
                )
                if not ok:
                    print(name, "REJECTED:", json.dumps(meta["confirmed"])[:600])
                    continue
                dst = os.path.join(V, "seeded", name)
                os.makedirs(dst, exist_ok=True)
                shutil.copy(patch, os.path.join(dst, "patch.diff"))
                shutil.copy(demo, os.path.join(dst, "demo.py"))
                with open(os.path.join(dst, "meta.json"), "w") as f:
                    json.dump(meta, f, indent=1)
                print(name, "kept:", meta.get("summary", "")[:160])
            finally:
                sh(f"git -C /repo worktree remove --force {wt}")
                shutil.rmtree(wt, ignore_errors=True)
                shutil.rmtree(wt + "-xdg", ignore_errors=True)


if __name__ == "__main__":
    main()
