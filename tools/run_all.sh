#!/bin/sh
# tools/run_all.sh [quick|thorough]: every registered check once against /repo, rewriting evidence/; prints one line per check
cd "$(dirname "$0")/.." || exit 2
tier="${1:-quick}"
rc=0
for id in C01 C02 C03 C04 C05 C06 C07 C08 C09 C10 C11 C12 C13 C14 C15 C16 C17 C18 C19 C20; do
  out=$(./check "$id" "$tier" 2>&1); code=$?
  echo "$out" | grep -E "^(C[0-9]+ |VIOLATION|KNOWN-FINDING|HARNESS)" | tail -3
  [ $code -ne 0 ] && { rc=1; echo "exit=$code $id"; }
done
/venv/bin/python - <<'PY'
import json, jsonschema, glob
sch = json.load(open('/root/.vp/EVIDENCE.schema.json'))
bad = 0
for f in sorted(glob.glob('evidence/*.json')):
    d = json.load(open(f))
    try:
        jsonschema.validate(d, sch)
        assert d['coverage'].get('tree') == '/repo', 'not a run against /repo'
    except Exception as e:
        bad += 1
        print(f, 'INVALID', str(e)[:200])
print('evidence files valid' if not bad else f'{bad} invalid evidence files')
PY
exit $rc
