#!/bin/sh
# tools/at_commit.sh <commit> <command...>: run a command with VERIF_REPO pointing at a scratch worktree of /repo at <commit>
sha="$1"; shift
wt="/tmp/awwt-$$"
git -C /repo worktree add -q --detach "$wt" "$sha" || exit 2
VERIF_REPO="$wt" "$@"; rc=$?
git -C /repo worktree remove --force "$wt"
exit $rc
