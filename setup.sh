#!/bin/sh
# Offline, idempotent: make hypothesis importable by /venv/bin/python and put atheris into /verif/.deps
set -e
cd "$(dirname "$0")"
WH=/opt/veriftools/wheels
/venv/bin/python -c "import hypothesis" 2>/dev/null || \
  /venv/bin/pip install -q --no-index --find-links "$WH" hypothesis 2>/dev/null || \
  /venv/bin/pip install -q --no-index --find-links "$WH" --target .deps hypothesis
if ! PYTHONPATH=.deps /venv/bin/python -c "import atheris" 2>/dev/null; then
  /venv/bin/pip install -q --no-index --find-links "$WH" --target .deps atheris 2>/dev/null || echo "setup: atheris not installable; C17 will run without coverage guidance"
fi
echo "setup ok"
