"""Interval layouts on an integer millisecond grid and brute-force set arithmetic.

An event is a dict {"s": start_ms, "d": duration_ms, "l": label[, "id": int]}
relative to BASE_MS.  Layouts are built constructively (gap, length) so that
touching, zero-length, nested and identical configurations are common.
"""
from datetime import timedelta

from hypothesis import strategies as st

from . import gen

BASE_MS = 1_600_000_000_000  # 2020-09-13T12:26:40Z

_small = st.one_of(st.sampled_from([0, 0, 1, 1, 2, 3]), st.integers(0, 12), st.integers(0, 5000))


def labels(alphabet=("a", "b")):
    return st.sampled_from(list(alphabet))


@st.composite
def nonoverlap_layout(draw, max_n=8, alphabet=("a", "b"), distinct_starts=False, with_ids=False, gaps=None, lens=None):
    """Time-sorted, internally non-overlapping events (touching and zero-length allowed)."""
    n = draw(st.integers(0, max_n))
    gaps = gaps or _small
    lens = lens or _small
    t = draw(st.integers(0, 5))
    out = []
    prev_start = None
    for i in range(n):
        g = draw(gaps)
        ln = draw(lens)
        s = t + g
        if distinct_starts and prev_start is not None and s == prev_start:
            s += 1
        ev = {"s": s, "d": ln, "l": draw(labels(alphabet))}
        if with_ids:
            ev["id"] = i + 1
        out.append(ev)
        prev_start = s
        t = s + ln
    if not distinct_starts and out and draw(st.integers(0, 3)) == 0:
        # zero-length events sitting exactly on the start (or end) edge of another event, listed AFTER it: touching, not overlapping
        for _ in range(draw(st.integers(1, 2))):
            host = draw(st.sampled_from(out))
            at = host["s"] + (host["d"] if draw(st.booleans()) else 0)
            z = {"s": at, "d": 0, "l": draw(labels(alphabet))}
            if with_ids:
                z["id"] = len(out) + 1
            out.insert(out.index(host) + 1, z)
    return out


@st.composite
def perturbed(draw, base, alphabet=("a", "b"), max_n=8):
    """A second non-overlapping layout derived from `base`: edges shifted by -1/0/+1,
    events split, merged, nested, so that shared edges and containment are common."""
    pts = []
    for e in base:
        pts.append(e["s"])
        pts.append(e["s"] + e["d"])
    if not pts:
        return draw(nonoverlap_layout(max_n=max_n, alphabet=alphabet))
    cuts = set()
    for p in pts:
        if draw(st.integers(0, 3)) > 0:
            cuts.add(max(0, p + draw(st.sampled_from([-1, 0, 0, 0, 1, 2]))))
    for _ in range(draw(st.integers(0, 3))):
        cuts.add(draw(st.integers(0, max(pts) + 3)))
    cuts = sorted(cuts)
    out = []
    i = 0
    t = -1
    while i < len(cuts) and len(out) < max_n:
        s = cuts[i]
        kind = draw(st.integers(0, 5))
        if kind == 0:  # zero-length
            e_end = s
            i += 1
        elif kind in (1, 2) and i + 2 < len(cuts):  # span two cut points
            e_end = cuts[i + 2]
            i += 2
        elif i + 1 < len(cuts):
            e_end = cuts[i + 1]
            i += 1
        else:
            e_end = s + draw(st.integers(0, 3))
            i += 1
        if s < t:
            s = t
        if e_end < s:
            e_end = s
        if draw(st.integers(0, 4)) == 0:  # leave a hole instead
            t = max(t, s)
            continue
        out.append({"s": s, "d": e_end - s, "l": draw(labels(alphabet))})
        t = e_end
    return out


@st.composite
def arbitrary_layout(draw, max_n=8, alphabet=("a", "b"), span=20):
    n = draw(st.integers(0, max_n))
    out = []
    for _ in range(n):
        s = draw(st.one_of(st.integers(0, span), st.integers(0, 5000)))
        d = draw(_small)
        out.append({"s": s, "d": d, "l": draw(labels(alphabet))})
    return out


def shuffled(draw, lst):
    if len(lst) < 2:
        return list(lst)
    return draw(st.permutations(lst))


# ---------------------------------------------------------------------------
# conversion


def to_event(ev, Event, key="l"):
    data = {} if ev.get("l") is None else {key: ev["l"]}
    return Event(
        id=ev.get("id"),
        timestamp=gen.dt_utc((BASE_MS + ev["s"]) * 1000),
        duration=timedelta(milliseconds=ev["d"]),
        data=data,
    )


def to_events(lst, Event, key="l"):
    return [to_event(e, Event, key) for e in lst]


def from_event(e):
    """(start_ms, end_ms) relative to BASE_MS; raises ValueError if not on the ms grid."""
    us = gen.to_us(e.timestamp)
    du = gen.td_us(e.duration)
    if us % 1000 or du % 1000:
        raise ValueError(f"off-grid event {e!r}")
    s = us // 1000 - BASE_MS
    return s, s + du // 1000


def snapshot(events):
    """Deep, order-preserving snapshot of a list of Event objects for change detection."""
    import json

    return [(e.get("id"), gen.to_us(e["timestamp"]), gen.td_us(e["duration"]), json.dumps(e.get("data"), sort_keys=True), sorted(e.keys())) for e in events]


# ---------------------------------------------------------------------------
# brute-force arithmetic on closed integer intervals


def merge_closed(ivs):
    """Maximal closed intervals covering the union of closed intervals (touching merges)."""
    out = []
    for s, e in sorted(ivs):
        if out and s <= out[-1][1]:
            if e > out[-1][1]:
                out[-1][1] = e
        else:
            out.append([s, e])
    return [tuple(x) for x in out]


def measure(ivs):
    return sum(e - s for s, e in merge_closed(ivs))


def subtract(iv, covers):
    """iv minus the union of `covers`, as maximal sub-intervals of positive length."""
    s, e = iv
    out = []
    cur = s
    for cs, ce in merge_closed([c for c in covers if c[1] > c[0]]):
        if ce <= cur:
            continue
        if cs >= e:
            break
        if cs > cur:
            out.append((cur, min(cs, e)))
        cur = max(cur, ce)
        if cur >= e:
            break
    if cur < e:
        out.append((cur, e))
    return [p for p in out if p[1] > p[0]]


def covered_by(iv, covers):
    """Is the closed interval iv inside the union of covers (closed)?"""
    s, e = iv
    for cs, ce in merge_closed(covers):
        if cs <= s and e <= ce:
            return True
    return False


def positive_overlap(a, b):
    return min(a[1], b[1]) - max(a[0], b[0]) > 0


# ---------------------------------------------------------------------------
# exhaustive small scopes


def all_layouts(grid, max_n, distinct_starts=False, min_start=0, zero_on_start=False):
    """Every time-sorted, internally non-overlapping list of at most max_n closed intervals with integer
    edges in [0, grid] (touching and zero-length allowed), as lists of (start, end)."""
    out = [[]]

    def rec(prefix, t, last_start):
        if len(prefix) == max_n:
            return
        for s in range(t, grid + 1):
            if distinct_starts and s == last_start:
                continue
            for e in range(s, grid + 1):
                cur = prefix + [(s, e)]
                out.append(cur)
                rec(cur, e, s)

    rec([], min_start, None)
    if zero_on_start:
        extra = []
        for lay in out:
            if len(lay) < max_n:
                for i, (s0, e0) in enumerate(lay):
                    if e0 > s0:
                        extra.append(lay[: i + 1] + [(s0, s0)] + lay[i + 1 :])
        out = out + extra
    return out


def shard(seq, i, n):
    return seq[i::n]
