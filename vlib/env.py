"""Process environment for every check: import isolation, scratch dirs, logging off.

Imported first by the runner (parent and every worker).  aw-core is pure
Python, so "rebuild from the working tree" means "import from the working tree
in a fresh process"; nothing is cached between runs (bytecode writing is off).
"""
import atexit
import logging
import os
import shutil
import sys
import tempfile

VERIF = os.path.dirname(os.path.dirname(os.path.abspath(__file__)))
REPO = os.path.abspath(os.environ.get("VERIF_REPO", "/repo"))

os.environ["PYTHONDONTWRITEBYTECODE"] = "1"
sys.dont_write_bytecode = True

_deps = os.path.join(VERIF, ".deps")
if os.path.isdir(_deps) and _deps not in sys.path:
    sys.path.append(_deps)
if VERIF not in sys.path:
    sys.path.insert(0, VERIF)
# the tree under test goes first so that an editable install elsewhere never wins
if REPO in sys.path:
    sys.path.remove(REPO)
sys.path.insert(0, REPO)

_SCRATCH = None


def scratch_root() -> str:
    """Per-process scratch directory (tmpfs when available), removed at exit."""
    global _SCRATCH
    if _SCRATCH is None or not os.path.isdir(_SCRATCH) or _SCRATCH_PID != os.getpid():
        _make_scratch()
    return _SCRATCH


_SCRATCH_PID = None


def _make_scratch():
    global _SCRATCH, _SCRATCH_PID
    base = "/dev/shm" if os.path.isdir("/dev/shm") and os.access("/dev/shm", os.W_OK) else tempfile.gettempdir()
    _SCRATCH = tempfile.mkdtemp(prefix="awverif-", dir=base)
    _SCRATCH_PID = os.getpid()
    for var, sub in (("XDG_DATA_HOME", "data"), ("XDG_CONFIG_HOME", "config"), ("XDG_CACHE_HOME", "cache"), ("XDG_STATE_HOME", "state")):
        p = os.path.join(_SCRATCH, sub)
        os.makedirs(p, exist_ok=True)
        os.environ[var] = p
    os.environ["HOME"] = _SCRATCH
    os.environ["HYPOTHESIS_STORAGE_DIRECTORY"] = os.path.join(_SCRATCH, "hypothesis")  # its character-table cache: not in the working directory
    pid = os.getpid()
    path = _SCRATCH

    def _cleanup():
        if os.getpid() == pid:
            shutil.rmtree(path, ignore_errors=True)

    atexit.register(_cleanup)


def disk_scratch() -> str:
    """Scratch on a real filesystem (for the real-crash tiers)."""
    p = tempfile.mkdtemp(prefix="awverif-disk-", dir=tempfile.gettempdir())
    pid = os.getpid()
    atexit.register(lambda: os.getpid() == pid and shutil.rmtree(p, ignore_errors=True))
    return p


_counter = 0


def fresh_path(suffix: str = "") -> str:
    global _counter
    _counter += 1
    return os.path.join(scratch_root(), f"f{_counter}{suffix}")


def fresh_dir() -> str:
    p = fresh_path()
    os.makedirs(p)
    return p


def rm(path: str) -> None:
    if os.path.isdir(path):
        shutil.rmtree(path, ignore_errors=True)
    else:
        for s in ("", "-wal", "-shm", "-journal"):
            try:
                os.unlink(path + s)
            except OSError:
                pass


def init() -> None:
    """Call once per process, before importing anything from the tree under test."""
    scratch_root()
    logging.disable(logging.CRITICAL)
    import aw_core  # noqa

    f = os.path.abspath(aw_core.__file__)
    if not f.startswith(REPO + os.sep):
        raise RuntimeError(f"aw_core imported from {f}, expected under {REPO}")


# ---------------------------------------------------------------------------
# interpreter configuration of a worker: asserts stripped (what `python -O` does), library logging at DEBUG

_PKGS = ("aw_core", "aw_datastore", "aw_transform", "aw_query", "aw_client")
_opt_finder = None


def set_optimize(flag: bool) -> None:
    """(Re-)import the tree under test in this process compiled with or without its assert statements (`python -O` compiles
    them out, and `__debug__` is False): every module of the tree is dropped from sys.modules and loaded again on next import."""
    global _opt_finder
    import importlib.abc
    import importlib.machinery

    if bool(flag) == (_opt_finder is not None):
        return

    class _Loader(importlib.machinery.SourceFileLoader):
        def get_code(self, fullname):  # always from source: no bytecode cache, optimisation level 1
            path = self.get_filename(fullname)
            return compile(self.get_data(path), path, "exec", dont_inherit=True, optimize=1)

    class _Finder(importlib.abc.MetaPathFinder):
        def find_spec(self, fullname, path, target=None):
            if fullname.split(".")[0] not in _PKGS:
                return None
            spec = importlib.machinery.PathFinder.find_spec(fullname, path)
            if spec is not None and spec.origin and spec.origin.endswith(".py") and os.path.abspath(spec.origin).startswith(REPO + os.sep):
                spec.loader = _Loader(fullname, spec.origin)
            return spec

    if flag:
        _opt_finder = _Finder()
        sys.meta_path.insert(0, _opt_finder)
    else:
        sys.meta_path.remove(_opt_finder)
        _opt_finder = None
    for name in [n for n in sys.modules if n.split(".")[0] in _PKGS]:
        del sys.modules[name]


def set_debug_logging(flag: bool) -> None:
    """Library loggers enabled down to DEBUG (records are formatted and thrown away) or, as everywhere else, disabled."""
    root = logging.getLogger()
    if flag:
        logging.disable(logging.NOTSET)
        root.setLevel(logging.DEBUG)
        if not any(isinstance(h, _Discard) for h in root.handlers):
            root.addHandler(_Discard())
    else:
        logging.disable(logging.CRITICAL)


class _Discard(logging.Handler):
    def emit(self, record):
        record.getMessage()  # format the message as a real handler would, then drop it
