"""The three storage backends behind one adapter, plus observers.

open_store / close_store / fresh store context manager; api_dump (what the API
shows), raw_dump (every row of every user table through plain SQL), statement
tracer (a callback before every SQL statement of the writer connection), and a
controllable clock for the SQLite store.
"""
import contextlib
import json
import os
import sqlite3
from datetime import timedelta

from . import env, gen

BACKENDS = ("memory", "sqlite", "peewee")


def open_store(backend, path=None, **kw):
    from aw_datastore import Datastore
    from aw_datastore.storages import MemoryStorage, PeeweeStorage, SqliteStorage

    if backend == "memory":
        return Datastore(MemoryStorage, testing=True)
    if backend == "sqlite":
        return Datastore(SqliteStorage, testing=True, filepath=path, **kw)
    if backend == "peewee":
        return Datastore(PeeweeStorage, testing=True, filepath=path)
    raise ValueError(backend)


def close_store(ds):
    s = ds.storage_strategy
    conn = getattr(s, "conn", None)
    if conn is not None:
        try:
            conn.close()
        except Exception:
            pass
    db = getattr(s, "db", None)
    if db is not None and not isinstance(db, dict):
        try:
            db.close()
        except Exception:
            pass


@contextlib.contextmanager
def store(backend, **kw):
    """A Datastore on a fresh file (tmpfs), closed and removed afterwards."""
    path = None if backend == "memory" else env.fresh_path(".db")
    ds = open_store(backend, path, **kw)
    try:
        yield ds
    finally:
        close_store(ds)
        if path:
            env.rm(path)


def writer_conn(ds):
    """The sqlite3 connection the store writes through (sqlite and peewee backends)."""
    s = ds.storage_strategy
    if hasattr(s, "conn"):
        return s.conn
    return s.db.connection()


# ---------------------------------------------------------------------------
# what the API shows


def ev_tuple(e):
    return (e.id, gen.to_us(e.timestamp), gen.td_us(e.duration), json.dumps(e.data, sort_keys=True))


def bucket_events(ds, bid):
    return sorted(ev_tuple(e) for e in ds[bid].get(limit=-1))


def norm_meta(m):
    import iso8601

    m = dict(m)
    c = m.get("created")
    if isinstance(c, str):
        try:
            m["created"] = gen.to_us(iso8601.parse_date(c))
        except Exception:
            pass
    elif c is not None and hasattr(c, "tzinfo"):
        m["created"] = gen.to_us(c)
    return json.dumps(m, sort_keys=True, default=str)


def api_dump(ds, exclude=()):
    """bucket id -> (normalised metadata JSON, sorted event tuples)."""
    out = {}
    for bid, meta in ds.buckets().items():
        if bid in exclude:
            continue
        out[bid] = (norm_meta(meta), bucket_events(ds, bid))
    return out


# ---------------------------------------------------------------------------
# what the file holds


def raw_dump(conn):
    """{(table, rowid): row tuple} for every user table, schema-agnostic."""
    out = {}
    cur = conn.cursor()
    tables = [r[0] for r in cur.execute("SELECT name FROM sqlite_master WHERE type='table' AND name NOT LIKE 'sqlite_%' ORDER BY name")]
    for t in tables:
        for row in cur.execute(f'SELECT rowid, * FROM "{t}"'):
            out[(t, row[0])] = tuple(row[1:])
    return out


def fresh_dump(path):
    """raw_dump through a brand-new connection: exactly the committed state, which is
    what a process death leaves behind (WAL and rollback-journal mode alike)."""
    conn = sqlite3.connect(path, timeout=30)
    try:
        return raw_dump(conn)
    finally:
        conn.close()


class _AnyDatetimeMeta(type):
    """The stand-in classes below replace the name `datetime` in a module of the tree under test; code there may well ask
    isinstance(x, datetime) about ordinary datetime objects, which must stay true."""

    def __instancecheck__(cls, obj):
        import datetime as _dt

        return isinstance(obj, _dt.datetime)

    def __subclasscheck__(cls, sub):
        import datetime as _dt

        return issubclass(sub, _dt.datetime)


class Tracer:
    """Calls `on_statement(sql)` before every SQL statement run on the writer connection."""

    def __init__(self, ds, on_statement):
        self.conn = writer_conn(ds)
        self.cb = on_statement
        self.enabled = True
        self.conn.set_trace_callback(self._trace)

    def _trace(self, sql):
        if self.enabled:
            self.enabled = False  # our own observation must not recurse
            try:
                self.cb(sql)
            finally:
                self.enabled = True

    def stop(self):
        try:
            self.conn.set_trace_callback(None)
        except Exception:
            pass


# ---------------------------------------------------------------------------
# controllable clock for the SQLite store


class FakeClock:
    """Rebinds aw_datastore.storages.sqlite.datetime to a subclass whose now() is ours."""

    def __init__(self, start_s=1_700_000_000.0):
        import datetime as _dt

        import aw_datastore.storages.sqlite as mod

        self.mod = mod
        self.t = start_s
        self.calls = 0
        self.orig = mod.datetime
        clock = self

        class _FakeDT(_dt.datetime, metaclass=_AnyDatetimeMeta):
            @classmethod
            def now(cls, tz=None):
                clock.calls += 1
                if tz is None:  # what the real datetime.now() returns: naive LOCAL wall-clock time (it steps back when daylight saving ends)
                    return _dt.datetime.fromtimestamp(clock.t)
                return _dt.datetime.fromtimestamp(clock.t, _dt.timezone.utc).astimezone(tz)

            @classmethod
            def utcnow(cls):
                clock.calls += 1
                return _dt.datetime.fromtimestamp(clock.t, _dt.timezone.utc).replace(tzinfo=None)

        self.cls = _FakeDT

    def __enter__(self):
        import time as _time

        self.mod.datetime = self.cls
        # should the store (one day) read time.monotonic()/time.time()/perf_counter() instead: drive those too, but only
        # through the names in the store's own module, never process-wide
        self._saved = {}
        self.offset = 0.0
        clock = self

        def shifted(fn):
            def f(*a, **k):
                clock.calls += 1
                return fn(*a, **k) + clock.offset

            return f

        class _TimeProxy:
            def __getattr__(self_, name):
                v = getattr(_time, name)
                return shifted(v) if name in ("monotonic", "time", "perf_counter") else v

        for name, val in list(vars(self.mod).items()):
            if val is _time:
                self._saved[name] = val
                setattr(self.mod, name, _TimeProxy())
            elif val in (_time.monotonic, _time.time, _time.perf_counter):
                self._saved[name] = val
                setattr(self.mod, name, shifted(val))
        return self

    def __exit__(self, *a):
        self.mod.datetime = self.orig
        for name, val in self._saved.items():
            setattr(self.mod, name, val)

    def next_fall_back(self, horizon_days=400):
        """The next instant (s) at which this process's local wall clock is set back (end of daylight saving), or None."""
        import time as _t

        t0 = int(self.t)
        prev = _t.localtime(t0)
        step = 3600
        for t in range(t0 + step, t0 + horizon_days * 86400, step):
            cur = _t.localtime(t)
            if cur.tm_gmtoff < prev.tm_gmtoff:
                lo, hi = t - step, t
                while hi - lo > 1:
                    mid = (lo + hi) // 2
                    if _t.localtime(mid).tm_gmtoff < prev.tm_gmtoff:
                        hi = mid
                    else:
                        lo = mid
                return hi
            prev = cur
        return None

    def advance(self, seconds):
        self.t += seconds
        self.offset = getattr(self, "offset", 0.0) + seconds


# ---------------------------------------------------------------------------
# events from JSON cases


def mk_event(Event, spec, eid=None):
    """spec: {"us": instant, "off": offset minutes, "dur_us": int, "data": {...}}"""
    return Event(
        id=eid,
        timestamp=gen.dt_at(spec["us"], spec.get("off", 0)),
        duration=timedelta(microseconds=spec["dur_us"]),
        data=json.loads(json.dumps(spec["data"])),
    )


def create_bucket(ds, bid, **kw):
    args = dict(type="t", client="c", hostname="h", created=gen.dt_utc(1_500_000_000_000_000))
    args.update(kw)
    return ds.create_bucket(bid, **args)


@contextlib.contextmanager
def pinned_now(module_names, us):
    """While active, `datetime.now()` / `utcnow()` read through the name `datetime` of the given modules return the instant
    `us`: the harness decides what 'the present' is for code that looks at the clock."""
    import datetime as _dt
    import importlib

    class _Pinned(_dt.datetime, metaclass=_AnyDatetimeMeta):
        @classmethod
        def now(cls, tz=None):
            base = _dt.datetime.fromtimestamp(us / 10**6, _dt.timezone.utc)
            return base.replace(tzinfo=None) if tz is None else base.astimezone(tz)

        @classmethod
        def utcnow(cls):
            return _dt.datetime.fromtimestamp(us / 10**6, _dt.timezone.utc).replace(tzinfo=None)

    saved = []
    for name in module_names:
        try:
            mod = importlib.import_module(name)
        except Exception:
            continue
        if getattr(mod, "datetime", None) is _dt.datetime:
            saved.append(mod)
            mod.datetime = _Pinned
    try:
        yield
    finally:
        for mod in saved:
            mod.datetime = _dt.datetime
