"""Runner shared by all checks.

    ./check <ID> [quick|thorough] [--replay FILE]

Exit status: 0 = property held on everything explored (known findings are
printed as KNOWN-FINDING lines), 1 = violation (a line
"VIOLATION property=<ID> replay=<path>" is printed), 2 = harness error /
inconclusive (never a VIOLATION line).

A property module (props/cXX.py) provides

    ID, RULE, ASSUMPTIONS            strings / list of strings
    budget(tier) -> int              Hypothesis examples per worker
    strategy(tier) -> SearchStrategy producing a JSON-serialisable case
    run_case(case) -> dict           raises Violation; returns labels
                                     {"nontrivial": bool, "classes": [...], "evals": int}
    known_key(case, violation)       optional: name of the known-finding classifier claiming this failure
    extra_phases(tier, seed, jobs)   optional: [(name, fn, [task, ...]), ...]; fn(task) -> Stats
    replay_<kind>(payload)           optional: replay for failures found by an extra phase

A run is a pure function of the tree under test and VERIF_SEED.
"""
from . import env  # noqa: F401  (must be first: fixes sys.path)

import hashlib
import importlib
import json
import multiprocessing
import os
import sys
import time
import traceback
from collections import Counter

LEVEL = "exploration"
MAX_SAMPLES = 4
SAMPLE_BYTES = 6000


class Violation(Exception):
    """The property does not hold for the case being run."""

    def __init__(self, msg, key=None, detail=None):
        super().__init__(msg)
        self.msg = msg
        self.key = key  # hint for known-finding classification
        self.detail = detail


class Inconclusive(Exception):
    """The harness could not decide (tool missing, observer not driven, ...)."""


class sut:
    """Context manager: an exception raised by the code under test inside the
    block is a violation of a property that says the operation succeeds."""

    def __init__(self, what, key=None, allow=()):
        self.what = what
        self.key = key
        self.allow = allow

    def __enter__(self):
        return self

    def __exit__(self, et, ev, tb):
        if et is None or issubclass(et, (Violation, Inconclusive)):
            return False
        if issubclass(et, (KeyboardInterrupt, SystemExit, MemoryError)):
            return False
        if self.allow and issubclass(et, self.allow):
            return False
        try:
            from hypothesis.errors import HypothesisException

            if issubclass(et, HypothesisException):
                return False
        except ImportError:
            pass
        frames = traceback.extract_tb(tb)
        where = ""
        for fr in reversed(frames):
            if fr.filename.startswith(env.REPO):
                where = f" at {os.path.relpath(fr.filename, env.REPO)}:{fr.lineno} in {fr.name}"
                break
        raise Violation(f"{self.what}: code under test raised {et.__name__}: {ev}{where}", key=self.key) from ev


class plain_stack:
    """Context manager: inside the block the interpreter's recursion limit is what a fresh interpreter leaves to code
    called from a shallow script (limit 1000, about fifty frames in use), whatever the harness did to it: Hypothesis
    raises the limit by a few thousand frames while it runs a test, which would hide a recursion that an ordinary
    caller runs out of.  With active=False it does nothing."""

    def __init__(self, active=True):
        self.active = active

    def __enter__(self):
        if self.active:
            import sys

            self.old = sys.getrecursionlimit()
            depth, f = 0, sys._getframe()
            while f is not None:
                depth, f = depth + 1, f.f_back
            sys.setrecursionlimit(depth + 950)
        return self

    def __exit__(self, et, ev, tb):
        if self.active:
            import sys

            sys.setrecursionlimit(self.old)
        return False


def canon(obj) -> str:
    return json.dumps(obj, sort_keys=True, ensure_ascii=True, separators=(",", ":"), default=_default)


def _default(o):
    if isinstance(o, (set, frozenset)):
        return sorted(o)
    if isinstance(o, bytes):
        return o.hex()
    return repr(o)


def case_hash(case) -> int:
    return int.from_bytes(hashlib.sha1(canon(case).encode()).digest()[:8], "big")


class Stats:
    """Picklable counters returned by each worker and each extra phase."""

    def __init__(self):
        self.evals = 0  # oracle executions
        self.cases = 0  # generated cases
        self.nontrivial = set()  # 64-bit hashes of distinct non-trivial cases
        self.classes = Counter()
        self.samples = []
        self.excluded = Counter()  # known-finding key -> cases set aside
        self.excluded_examples = {}
        self.failure = None  # {"kind":..., "case":..., "message":...}
        self.error = None  # harness error text
        self.notes = {}

    def record(self, case, labels):
        self.cases += 1
        labels = labels or {}
        self.evals += int(labels.get("evals", 1))
        for c in labels.get("classes", ()):
            self.classes[c] += 1
        if labels.get("nontrivial"):
            self.classes["nontrivial"] += 1
            h = case_hash(case)
            if h not in self.nontrivial:
                self.nontrivial.add(h)
                if len(self.samples) < MAX_SAMPLES:
                    self.samples.append(_sample(case))
        else:
            self.classes["trivial"] += 1

    def merge(self, other):
        self.evals += other.evals
        self.cases += other.cases
        self.nontrivial |= other.nontrivial
        self.classes.update(other.classes)
        for s in other.samples:
            if len(self.samples) < MAX_SAMPLES:
                self.samples.append(s)
        self.excluded.update(other.excluded)
        for k, v in other.excluded_examples.items():
            self.excluded_examples.setdefault(k, v)
        if other.failure and not self.failure:
            self.failure = other.failure
        if other.error and not self.error:
            self.error = other.error
        for k, v in other.notes.items():
            if isinstance(v, (int, float)) and isinstance(self.notes.get(k, 0), (int, float)):
                self.notes[k] = self.notes.get(k, 0) + v
            else:
                self.notes.setdefault(k, v)


def _sample(case):
    s = canon(case)
    if len(s) <= SAMPLE_BYTES:
        return case
    return {"truncated_case_json": s[:SAMPLE_BYTES] + "...", "full_length": len(s)}


# --------------------------------------------------------------------------
# known findings


def load_known(pid):
    path = os.path.join(env.VERIF, "known_findings.json")
    if not os.path.exists(path):
        return {}
    with open(path) as f:
        doc = json.load(f)
    out = {}
    for ent in doc.get("findings", []):
        if ent.get("property") == pid and ent.get("status") == "known":
            out[ent["key"]] = ent
    return out


def classify(mod, case, v, known):
    """Return the known-finding key that claims this failure, or None."""
    if not known:
        return None
    fn = getattr(mod, "known_key", None)
    if fn is None:
        return None
    try:
        key = fn(case, v)
    except Exception:
        return None
    return key if key in known else None


# --------------------------------------------------------------------------
# Hypothesis worker


# The process's local time zone is part of the environment every property quantifies over implicitly: half of the workers run in
# the ambient zone, the others in zones east and west of Greenwich with and without daylight saving (POSIX TZ strings, which need
# no zone database).  The zone a failure was found in travels with its replay file.
LOCAL_ZONES = [None, "NZST-12NZDT,M9.5.0,M4.1.0/3", None, "NST3:30NDT,M3.2.0,M11.1.0", None, "IST-5:30", None, "<-10>10"]


def apply_zone(z):
    """Sets the local time zone of this process; returns the previous TZ value."""
    old = os.environ.get("TZ")
    if z is None:
        return old
    os.environ["TZ"] = z
    time.tzset()
    return old


def restore_zone(old, z):
    if z is None:
        return
    if old is None:
        os.environ.pop("TZ", None)
    else:
        os.environ["TZ"] = old
    time.tzset()


def worker_env(w):
    """Interpreter configuration of hypothesis worker w: every fourth worker runs the tree with its assert statements compiled
    out (as `python -O` does), every fourth with the library's loggers enabled down to DEBUG."""
    if os.environ.get("VERIF_ZONES", "1") == "0":
        return {"asserts_stripped": False, "debug_logging": False}
    return {"asserts_stripped": w % 4 == 2, "debug_logging": w % 4 == 1}


def apply_env(e):
    e = e or {}
    env.set_optimize(bool(e.get("asserts_stripped")))
    env.set_debug_logging(bool(e.get("debug_logging")))


def _seed_for(pid, seed, w):
    h = hashlib.sha256(f"{seed}/{pid}/{w}".encode()).digest()
    return int.from_bytes(h[:8], "big")


def _hyp_worker(args):
    modname, tier, seed, w, n = args
    st = Stats()
    try:
        env.init()
        mod = importlib.import_module(modname)
        import hypothesis
        from hypothesis import HealthCheck, Phase, given, settings
        from hypothesis.errors import Flaky, FlakyFailure, Unsatisfiable

        known = load_known(mod.ID)
        strat = mod.strategy(tier)
        hold = {"last": None}
        zone = LOCAL_ZONES[w % len(LOCAL_ZONES)] if os.environ.get("VERIF_ZONES", "1") != "0" else None
        apply_zone(zone)
        st.classes["worker_local_zone:" + (zone or "ambient")] += 1
        wenv = worker_env(w)
        apply_env(wenv)
        for k, v in wenv.items():
            if v:
                st.classes["worker_" + k] += 1

        shrink_budget = float(os.environ.get("VERIF_SHRINK_S", "45" if tier == "quick" else "180"))
        try:  # Hypothesis's own cap on shrinking time (default 300 s); affects only the size of the reported case
            import hypothesis.internal.conjecture.engine as _eng

            _eng.MAX_SHRINKING_SECONDS = shrink_budget
        except Exception:
            pass

        def body(case):
            if hold.get("deadline") and time.time() > hold["deadline"]:
                # shrink budget used up: freeze on the best failing case found so far
                # (affects only how small the reported case is, never the verdict)
                if case_hash(case) == hold["last_hash"]:
                    raise Violation(hold["last"]["message"])
                return
            try:
                labels = mod.run_case(case)
            except Violation as v:
                key = classify(mod, case, v, known)
                if key is not None:
                    st.excluded[key] += 1
                    st.excluded_examples.setdefault(key, {"case": _sample(case), "message": v.msg})
                    st.cases += 1
                    st.evals += 1
                    st.classes["excluded_known"] += 1
                    return
                hold["last"] = {"kind": "case", "case": case, "message": v.msg, "tz": zone, "env": {k: v for k, v in wenv.items() if v}}
                hold["last_hash"] = case_hash(case)
                if not hold.get("deadline"):
                    hold["deadline"] = time.time() + shrink_budget
                raise
            st.record(case, labels)

        test = given(strat)(body)
        test = settings(
            max_examples=n,
            database=None,
            deadline=None,
            derandomize=False,
            report_multiple_bugs=False,
            print_blob=False,
            phases=[Phase.generate, Phase.shrink],
            suppress_health_check=[HealthCheck.too_slow, HealthCheck.data_too_large, HealthCheck.large_base_example],
            verbosity=hypothesis.Verbosity.quiet,
        )(test)
        test = hypothesis.seed(_seed_for(mod.ID, seed, w))(test)
        try:
            test()
        except Violation:
            st.failure = hold["last"]
        except (Flaky, FlakyFailure) as e:
            # decide by plain re-execution of the last failing case
            last = hold["last"]
            again = 0
            if last is not None:
                for _ in range(3):
                    try:
                        mod.run_case(last["case"])
                    except Violation:
                        again += 1
                    except Exception:
                        pass
            if last is not None and again == 3:
                st.failure = last
            elif last is not None and getattr(mod, "DETERMINISTIC", False):
                # the oracle of this check is a pure function of the case (no clock, no files, no processes): a failure it has seen
                # is a failure of the code under test even if the same call succeeds when repeated - the code's behaviour then
                # depends on state left behind by earlier calls in the same process (a cache, a shared object)
                st.failure = dict(last, message=last["message"] + f" [seen on the first execution of this case; repeating the same case in the same process reproduced it {again} times out of 3: the outcome depends on state left by earlier calls]")
            elif last is not None and _fails_in_fresh_process(mod.ID, last) == 2:
                # not reproducible in this process any more, but it fails every time in a fresh interpreter (which is what the replay
                # file gives): the code under test keeps state between calls (a cache, a shared object) and this process's copy of
                # that state has moved on since the first execution
                st.failure = dict(last, message=last["message"] + f" [seen on the first execution of this case and in 2 of 2 fresh processes; repeating it in the process that found it reproduced it {again} times out of 3: the outcome depends on state left by earlier calls]")
            else:
                st.error = f"flaky under Hypothesis and not reproducible by plain replay ({again}/3): {e}"
                st.notes["flaky_case"] = _sample(last["case"]) if last else None
        except Inconclusive as e:
            st.error = f"inconclusive: {e}"
        except Unsatisfiable as e:
            st.error = f"generator unsatisfiable: {e}"
    except BaseException as e:  # harness error
        if isinstance(e, (KeyboardInterrupt, SystemExit)):
            raise
        st.error = "harness error in worker %s: %s" % (w, "".join(traceback.format_exception(type(e), e, e.__traceback__))[-3000:])
    return st


def _phase_worker(args):
    modname, fname, task, idx = args
    try:
        env.init()
        mod = importlib.import_module(modname)
        fn = getattr(mod, fname)
        zone = LOCAL_ZONES[(idx + 1) % len(LOCAL_ZONES)] if os.environ.get("VERIF_ZONES", "1") != "0" else None
        apply_zone(zone)
        res = fn(task)
        assert isinstance(res, Stats)
        if res.failure and zone:
            res.failure["tz"] = zone
        return res
    except Inconclusive as e:
        st = Stats()
        st.error = f"inconclusive: {e}"
        return st
    except BaseException as e:
        if isinstance(e, (KeyboardInterrupt, SystemExit)):
            raise
        st = Stats()
        st.error = "harness error in phase %s: %s" % (fname, "".join(traceback.format_exception(type(e), e, e.__traceback__))[-3000:])
        return st


# --------------------------------------------------------------------------
# replay / regression


def run_replay(mod, doc, known):
    """Returns (status, message): status in ok / violation / known:<key>."""
    kind = doc.get("kind", "case")
    case = doc["case"]
    old_tz = apply_zone(doc.get("tz"))
    apply_env(doc.get("env"))
    try:
        try:
            if kind == "case":
                mod.run_case(case)
            else:
                getattr(mod, "replay_" + kind)(case)
        finally:
            restore_zone(old_tz, doc.get("tz"))
            if doc.get("env"):
                apply_env(None)
    except Violation as v:
        key = classify(mod, case, v, known) if kind == "case" else None
        if key is None and kind != "case":
            fn = getattr(mod, "known_key_" + kind, None)
            if fn is not None:
                k = fn(case, v)
                key = k if k in known else None
        if key is not None:
            return "known:" + key, v.msg
        return "violation", v.msg
    return "ok", ""


def _fails_in_fresh_process(pid, failure, times=2):
    """How many of `times` replays of this failing case, each in a fresh interpreter, report a violation."""
    import subprocess
    import tempfile

    body = {"property": pid, "kind": failure.get("kind", "case"), "case": failure["case"], "message": failure.get("message", "")}
    for k in ("tz", "env"):
        if failure.get(k):
            body[k] = failure[k]
    fd, path = tempfile.mkstemp(prefix=f"{pid}-fresh-", suffix=".json")
    n = 0
    try:
        with os.fdopen(fd, "w") as f:
            json.dump(body, f, default=_default)
        for _ in range(times):
            try:
                r = subprocess.run([os.path.join(env.VERIF, "check"), pid, "--replay", path], stdout=subprocess.PIPE, stderr=subprocess.STDOUT, text=True, timeout=600)
            except Exception:
                continue
            if r.returncode == 1 and "VIOLATION" in r.stdout:
                n += 1
    finally:
        try:
            os.unlink(path)
        except OSError:
            pass
    return n


def write_replay(pid, tier, seed, failure):
    d = os.path.join(env.VERIF, "replays")
    os.makedirs(d, exist_ok=True)
    body = {"property": pid, "kind": failure.get("kind", "case"), "case": failure["case"], "message": failure.get("message", ""), "tier": tier, "seed": seed}
    if failure.get("tz"):
        body["tz"] = failure["tz"]  # the local time zone of the worker that found it
    if failure.get("env"):
        body["env"] = failure["env"]  # its interpreter configuration (asserts stripped / debug logging)
    h = hashlib.sha1(canon(body["case"]).encode()).hexdigest()[:10]
    path = os.path.join(d, f"{pid}-{tier}-{seed}-{h}.json")
    with open(path, "w") as f:
        json.dump(body, f, indent=1, sort_keys=True, default=_default)
    return path


# --------------------------------------------------------------------------


def main(argv=None):
    argv = list(sys.argv[1:] if argv is None else argv)
    try:  # failing cases may contain text that the terminal's encoding cannot carry (lone surrogates): never die while reporting
        sys.stdout.reconfigure(errors="backslashreplace")
    except Exception:
        pass
    if not argv:
        print("usage: check <ID> [quick|thorough] [--replay FILE]", file=sys.stderr)
        return 2
    pid = argv.pop(0).upper()
    replay = None
    tier = os.environ.get("VERIF_TIER") or "quick"
    while argv:
        a = argv.pop(0)
        if a == "--replay":
            replay = argv.pop(0)
        elif a in ("quick", "thorough"):
            tier = a
        else:
            print(f"unknown argument {a}", file=sys.stderr)
            return 2
    if tier not in ("quick", "thorough"):
        tier = "quick"
    seed = int(os.environ.get("VERIF_SEED", "1") or "1")
    jobs = int(os.environ.get("VERIF_JOBS", "0") or "0") or min(16, os.cpu_count() or 1)
    scale = float(os.environ.get("VERIF_SCALE", "1") or "1")
    t0 = time.time()
    modname = "props." + pid.lower()
    try:
        env.init()
        mod = importlib.import_module(modname)
    except BaseException as e:
        if isinstance(e, (KeyboardInterrupt, SystemExit)):
            raise
        traceback.print_exc()
        print(f"HARNESS-ERROR property={pid} cannot set up: {e}")
        return 2
    known = load_known(pid)

    if replay is not None:
        with open(replay) as f:
            doc = json.load(f)
        status, msg = run_replay(mod, doc, known)
        if status == "violation":
            print(f"replay fails: {msg}")
            print(f"VIOLATION property={pid} replay={replay}")
            return 1
        if status.startswith("known:"):
            ent = known[status[6:]]
            print(f"KNOWN-FINDING: property={pid} {ent['what']}")
            return 0
        print("replay passes")
        return 0

    total = Stats()
    violations = []

    # 1. regression tier: committed replays of every confirmed failure
    rdir = os.path.join(env.VERIF, "regress", pid)
    nreg = 0
    if os.path.isdir(rdir):
        for name in sorted(os.listdir(rdir)):
            if not name.endswith(".json"):
                continue
            path = os.path.join(rdir, name)
            with open(path) as f:
                doc = json.load(f)
            nreg += 1
            try:
                status, msg = run_replay(mod, doc, known)
            except Inconclusive as e:
                print(f"HARNESS-ERROR property={pid} regression {name} inconclusive: {e}")
                return 2
            except Exception:
                traceback.print_exc()
                print(f"HARNESS-ERROR property={pid} regression {name} crashed")
                return 2
            if status == "violation":
                print(f"regression replay {name} fails: {msg}")
                violations.append((os.path.relpath(path, env.VERIF), msg))
            elif status.startswith("known:"):
                total.excluded[status[6:]] += 1
    total.notes["regression_replays"] = nreg

    # 2. search tier
    if not violations:
        n = max(1, int(mod.budget(tier) * scale))
        tasks = [(modname, tier, seed, w, n) for w in range(jobs)]
        phases = []
        if hasattr(mod, "extra_phases"):
            for name, fname, ptasks in mod.extra_phases(tier, seed, jobs):
                phases.append((name, [(modname, fname, t, i) for i, t in enumerate(ptasks)]))
        ctx = multiprocessing.get_context("fork")
        with ctx.Pool(processes=jobs, maxtasksperchild=1) as pool:
            asyncs = [("hypothesis", pool.map_async(_hyp_worker, tasks, chunksize=1))]
            for name, ptasks in phases:
                asyncs.append((name, pool.map_async(_phase_worker, ptasks, chunksize=1)))
            for name, a in asyncs:
                for st in a.get():
                    st.notes = {f"{name}.{k}" if name != "hypothesis" else k: v for k, v in st.notes.items()}
                    if name != "hypothesis":
                        st.classes = Counter({f"{name}:{k}": v for k, v in st.classes.items()})
                    total.merge(st)
                    if st.failure:
                        violations.append((None, st.failure))
        if total.error and not violations:
            print(total.error)
            print(f"HARNESS-ERROR property={pid}")
            _write_evidence(mod, pid, tier, seed, total, time.time() - t0, 0, known, error=total.error)
            return 2

    # 3. report
    out_violations = []
    for path, f in violations:
        if path is None:
            path = os.path.relpath(write_replay(pid, tier, seed, f), env.VERIF)
            msg = f.get("message", "")
        else:
            msg = f
        out_violations.append((path, msg))
    _write_evidence(mod, pid, tier, seed, total, time.time() - t0, len(out_violations), known)
    for key, ent in known.items():
        print(f"KNOWN-FINDING: property={pid} {ent['what']} [matching cases set aside this run: {total.excluded.get(key, 0)}]")
    nt = len(total.nontrivial)
    print(f"{pid} {tier} seed={seed}: {total.cases} cases, {total.evals} oracle evaluations, {nt} distinct non-trivial, {sum(total.excluded.values())} set aside as known, {time.time() - t0:.1f}s")
    if out_violations:
        seen = set()
        for path, msg in out_violations:
            if path in seen:
                continue
            seen.add(path)
            if len(seen) > 3:
                continue
            print(f"  failing: {msg[:1500]}")
            print(f"VIOLATION property={pid} replay={path}")
        return 1
    if nt < 2:
        print(f"HARNESS-ERROR property={pid}: fewer than 2 distinct non-trivial cases were generated; generator is broken")
        return 2
    return 0


def _write_evidence(mod, pid, tier, seed, total, wall, nviol, known, error=None):
    cov = {
        "evaluations": int(total.evals),
        "cases_generated": int(total.cases),
        "distinct_nontrivial": len(total.nontrivial),
        "rule": mod.RULE,
        "samples": total.samples,
        "classes": dict(sorted(total.classes.items())),
        "excluded_known": dict(total.excluded),
        "excluded_known_examples": total.excluded_examples,
        "known_findings_listed": sorted(known),
        "notes": total.notes,
        "tree": env.REPO,
        "environment": "generated cases run in 16 worker processes; every second worker has its local time zone set (TZ + tzset) to one of " + ", ".join(z for z in LOCAL_ZONES if z) + "; the others run in the ambient zone; every fourth worker imports the tree with assert statements compiled out (python -O), every fourth with the library's loggers enabled down to DEBUG; a failing case's zone and configuration are stored in its replay file",
    }
    if getattr(mod, "EXHAUSTIVE_NOTE", None):
        cov["exhaustive_part"] = mod.EXHAUSTIVE_NOTE
    if error:
        cov["harness_error"] = error[-2000:]
    doc = {
        "property_id": pid,
        "tier": tier,
        "seed": seed,
        "level": getattr(mod, "LEVEL", LEVEL),
        "coverage": cov,
        "assumptions": list(getattr(mod, "ASSUMPTIONS", [])),
        "wall_s": round(wall, 2),
        "violations": nviol,
    }
    # evidence/ describes runs against /repo; runs against another tree (VERIF_REPO, sensitivity runs) write elsewhere
    d = os.environ.get("VERIF_EVIDENCE_DIR") or (os.path.join(env.VERIF, "evidence") if env.REPO == "/repo" else os.path.join(env.scratch_root(), "evidence"))
    os.makedirs(d, exist_ok=True)
    tmp = os.path.join(d, f".{pid}.json.tmp")
    with open(tmp, "w") as f:
        json.dump(doc, f, indent=1, sort_keys=True, default=_default)
    os.replace(tmp, os.path.join(d, f"{pid}.json"))
