"""Shared Hypothesis strategies.  Every strategy yields JSON-serialisable values
(ints, strings, lists, dicts) so that a generated case *is* its replay file.

Instants are integer microseconds since the epoch; offsets are whole minutes.
"""
from datetime import datetime, timedelta, timezone

from hypothesis import strategies as st

EPOCH = datetime(1970, 1, 1, tzinfo=timezone.utc)
MAX_S = 4102444800  # 2100-01-01T00:00:00Z
MAX_US = MAX_S * 10**6
DAY_US = 86400 * 10**6

# seconds values around which bugs like to live
_BOUNDARY_S = [
    0,
    1,
    59,
    60,
    3599,
    3600,
    86399,
    86400,
    2**30,
    2**31 - 1,
    2**31,
    2**32 - 1,
    2**32,
    951782400,  # 2000-02-29
    951868799,
    1709164800,  # 2024-02-29
    1230768000,  # 2009-01-01 (after a leap second)
    1483228799,  # 2016-12-31T23:59:59
    1600000000,
    1700000000,
    4107542400 - 5184000 - 86400,  # 2100-02-28
    MAX_S - 1,
]
_US_PARTS = [0, 1, 499, 500, 501, 999, 1000, 1001, 1999, 500000, 999000, 999001, 999499, 999500, 999999, 870000, 100000, 120000, 123400, 50000]


def us_parts():
    return st.one_of(st.sampled_from(_US_PARTS), st.integers(0, 999999))


@st.composite
def instants(draw, lo=0, hi=MAX_US - 1):
    """Integer microseconds since the epoch in [lo, hi]."""
    kind = draw(st.integers(0, 3))
    if kind == 0:
        v = draw(st.integers(lo, hi))
    elif kind == 1:
        s = draw(st.sampled_from(_BOUNDARY_S)) + draw(st.integers(-2, 2))
        v = s * 10**6 + draw(us_parts())
    else:
        v = draw(st.integers(lo // 10**6, hi // 10**6)) * 10**6 + draw(us_parts())
    return min(max(v, lo), hi)


def offsets():
    """UTC offset in whole minutes within [-14h, +14h]."""
    return st.one_of(
        st.sampled_from([0, 0, 60, -60, 330, 345, -570, 840, -840, 839, -839, 1, -1]),
        st.integers(-840, 840),
    )


@st.composite
def stamps(draw):
    """(instant us, offset minutes) of a timestamp whose LOCAL date lies in 1970..2100: east of Greenwich the first hours of
    1970-01-01 are instants before the epoch (1970-01-01T03:00+10:00 is 1969-12-31T17:00Z), so the instant may be negative."""
    off = draw(offsets())
    if off > 0 and draw(st.integers(0, 9)) == 0:
        span = off * 60 * 10**6
        us = -draw(st.one_of(st.integers(1, span), st.sampled_from([1, 500, 999, 1000, 1001, 10**6, span - 1, span])))
    else:
        us = draw(instants())
    return us, off


def durations_us(max_us=30 * DAY_US, negative=False):
    base = st.one_of(
        st.sampled_from([0, 1, 999, 1000, 1001, 10**6 - 1, 10**6, 10**6 + 1, 60 * 10**6, DAY_US, DAY_US - 1]),
        st.integers(0, 10**7),
        st.integers(0, max_us),
    ).map(lambda v: min(v, max_us))
    if negative:
        return st.one_of(base, base.map(lambda v: -v))
    return base


_TEXT_SPECIALS = ['"', "'", "\\", "\x00", "\n", "\t", "é", "ß", "日本", "😀", " ", "{", "}", "[", "]", ",", ":", " ", "%", "?", "퟿", "￿", "\U0010ffff",
                  # not in Unicode composed form (a store that normalises text would change them): e + combining acute,
                  # ANGSTROM SIGN, OHM SIGN, = + combining solidus, Hangul jamo, fi ligature; and the line separators U+2028 / U+0085
                  "e\u0301", "\u212b", "\u2126", "=\u0338", "\u1100\u1161", "\ufb01", "\u2028", "\x85"]


def texts(max_size=8, surrogates=False):
    """surrogates=True adds unpaired UTF-16 surrogates: legal in a Python str and in JSON ("\\ud83d" - what json.loads yields for a
    window title cut in the middle of an emoji), but not encodable as UTF-8, so only for text that travels as JSON (event data),
    not for names that are bound to SQL parameters as they are (bucket ids, event ids)."""
    parts = [
        st.sampled_from(_TEXT_SPECIALS),
        st.characters(min_codepoint=32, max_codepoint=126),
        st.characters(blacklist_categories=("Cs",)),
    ]
    if surrogates:
        parts.append(st.sampled_from(["\ud83d", "\udc00", "\ud800", "\udfff", "a"]))
    return st.lists(st.one_of(*parts), max_size=max_size).map("".join)


def json_scalars(surrogates=False):
    return st.one_of(
        st.none(),
        st.booleans(),
        st.integers(-5, 5),
        st.integers(-(2**63), 2**63 - 1),
        st.sampled_from([0.0, -0.0, 0.1, 1e-7, 1.5, -2.25, 1e16, 1e100, 5e-324, 1.7976931348623157e308, 3.141592653589793, 1 / 3]),
        st.floats(allow_nan=False, allow_infinity=False),
        texts(surrogates=surrogates),
    )


def json_values(max_leaves=10, surrogates=False):
    return st.recursive(
        json_scalars(surrogates),
        lambda ch: st.one_of(st.lists(ch, max_size=4), st.dictionaries(texts(5, surrogates), ch, max_size=4)),
        max_leaves=max_leaves,
    )


def json_data(max_leaves=10, surrogates=False):
    """A JSON object (event data).  surrogates=True: strings and keys may contain unpaired surrogates (see texts)."""
    return st.dictionaries(texts(5, surrogates), json_values(max_leaves, surrogates), max_size=4)


def has_nested(v) -> bool:
    if isinstance(v, dict):
        return any(isinstance(x, (dict, list)) for x in v.values())
    return False


# ---------------------------------------------------------------------------
# conversion helpers (not strategies)


def dt_utc(us: int) -> datetime:
    return EPOCH + timedelta(microseconds=us)


def dt_at(us: int, off_min: int = 0) -> datetime:
    """The instant `us` as an aware datetime carrying the given UTC offset."""
    return dt_utc(us).astimezone(timezone(timedelta(minutes=off_min)))


def to_us(dt: datetime) -> int:
    d = dt - EPOCH
    return (d.days * 86400 + d.seconds) * 10**6 + d.microseconds


def td_us(td: timedelta) -> int:
    return (td.days * 86400 + td.seconds) * 10**6 + td.microseconds


def floor_ms(us: int) -> int:
    return (us // 1000) * 1000


def iso_spelling(us: int, off_min: int, style: int) -> str:
    """One of several ISO-8601 spellings of an instant. style bits:
    0-1: fractional digits 0->auto(6 or none) 1->3 (only if exact) 2->6 3->minimal (1..6, trailing zeros dropped)
    2: 'T' vs ' ' separator; 3: offset as +hh:mm vs +hhmm; 4: 'Z' for zero offset."""
    d = dt_at(us, off_min)
    frac_style = style & 3
    sep = " " if style & 4 else "T"
    base = d.strftime("%Y-%m-%d") + sep + d.strftime("%H:%M:%S")
    usec = d.microsecond
    if frac_style == 3 and usec:
        base += "." + ("%06d" % usec).rstrip("0")  # as few digits as represent it: .5, .87, .1234
    elif frac_style == 1 and usec % 1000 == 0:
        base += ".%03d" % (usec // 1000)
    elif frac_style == 2 or usec:
        base += ".%06d" % usec
    if off_min == 0 and style & 16:
        return base + "Z"
    sign = "+" if off_min >= 0 else "-"
    a = abs(off_min)
    if style & 8:
        return base + "%s%02d%02d" % (sign, a // 60, a % 60)
    return base + "%s%02d:%02d" % (sign, a // 60, a % 60)
