"""atheris target for C17.  usage: fuzz_c17.py OUTDIR CORPUSDIR [libFuzzer flags]

The semantic oracle is inside the target (props.c17.run_text): an escaped
non-query exception or a timeout is written to OUTDIR/finding-<bucket>.txt
(one per root-cause bucket = exception type + innermost aw_query frame) and the
campaign continues, so one shallow defect does not hide the next.  Statistics
are flushed to OUTDIR/stats.json periodically and at the last run.
"""
import json
import os
import sys

outdir = sys.argv[1]
corpus = sys.argv[2]
flags = sys.argv[3:]

from vlib import env  # noqa: E402

env.init()
import atheris  # noqa: E402

with atheris.instrument_imports(include=["aw_query"]):
    import aw_query  # noqa: F401
    import aw_query.functions  # noqa: F401
    import aw_query.query2  # noqa: F401

from props import c17  # noqa: E402
from vlib.runner import case_hash  # noqa: E402

runs = 0
for f in flags:
    if f.startswith("-runs="):
        runs = int(f.split("=")[1])

S = {"execs": 0, "nontrivial": 0, "classes": {}, "nontrivial_hashes": [], "samples": [], "buckets": {}}
seen = set()
MAX_HASHES = 150000


def flush():
    S["nontrivial_hashes"] = list(seen)[:MAX_HASHES]
    tmp = os.path.join(outdir, "stats.json.tmp")
    with open(tmp, "w") as f:
        json.dump(S, f)
    os.replace(tmp, os.path.join(outdir, "stats.json"))


def one(data):
    try:
        text = data.decode("utf-8")
    except UnicodeDecodeError:
        S["classes"]["undecodable"] = S["classes"].get("undecodable", 0) + 1
        _count()
        return
    status, detail = c17.run_text(text)
    key = status.split(":")[0]
    S["classes"][key] = S["classes"].get(key, 0) + 1
    if c17.is_nontrivial(text):
        h = case_hash(text)
        if h not in seen:
            seen.add(h)
            S["nontrivial"] += 1
            if len(S["samples"]) < 4 and len(seen) % 97 == 1:
                S["samples"].append({"text": text, "outcome": status})
    if status in ("violation", "timeout"):
        b = c17.bucket_of(detail) if status == "violation" else "timeout"
        if b not in S["buckets"]:
            S["buckets"][b] = text
            name = "finding-%03d.txt" % len(S["buckets"])
            with open(os.path.join(outdir, name), "w", encoding="utf-8") as f:
                f.write(text)
            flush()
        if status == "timeout":
            # a non-terminating input makes every further execution cost the full alarm: the campaign has its answer
            flush()
            os._exit(0)
    _count()


def _count():
    S["execs"] += 1
    if S["execs"] % 5000 == 0 or (runs and S["execs"] >= runs - 1):
        flush()


flush()
atheris.Setup([sys.argv[0]] + flags + [corpus], one)
atheris.Fuzz()
