"""The query language, independently of aw_query: AST, typed program generator,
renderer (compact or with whitespace in the separator holes), reference parser,
reference evaluator.

AST nodes are JSON values:
  {"t":"int","v":"007"}            digit string
  {"t":"str","v":"text","q":"'"}   q is the quote character used when rendered
  {"t":"list","v":[node,...]}
  {"t":"dict","v":[[strnode,node],...]}   distinct keys
  {"t":"var","v":"name"}
  {"t":"call","f":"name","a":[node,...]}
A program is a list of {"var": name, "e": node}; the last one assigns RETURN.
"""
import json
from datetime import timedelta

from hypothesis import strategies as st

from . import gen

WS = ["", " ", "\n", "\t ", "  "]

BUILTINS = [
    "find_bucket",
    "query_bucket",
    "query_bucket_eventcount",
    "filter_keyvals",
    "exclude_keyvals",
    "filter_keyvals_regex",
    "filter_period_intersect",
    "period_union",
    "limit_events",
    "merge_events_by_keys",
    "chunk_events_by_key",
    "sort_by_timestamp",
    "sort_by_duration",
    "sum_durations",
    "concat",
    "union_no_overlap",
    "flood",
    "split_url_events",
    "simplify_window_titles",
    "nop",
    "categorize",
    "tag",
]

# ---------------------------------------------------------------------------
# rendering


class _Holes:
    def __init__(self, ws):
        self.ws = ws
        self.i = 0

    def __call__(self):
        if not self.ws:
            return ""
        w = WS[self.ws[self.i % len(self.ws)] % len(WS)]
        self.i += 1
        return w


def render_str(v, q):
    return q + v.replace(q, "\\" + q) + q


def render_expr(n, h):
    t = n["t"]
    if t == "int":
        return n["v"]
    if t == "str":
        return render_str(n["v"], n["q"])
    if t == "var":
        return n["v"]
    if t == "list":
        return "[" + (h() + "," + h()).join(render_expr(x, h) for x in n["v"]) + "]"
    if t == "dict":
        parts = []
        for k, v in n["v"]:
            parts.append(render_expr(k, h) + h() + ":" + h() + render_expr(v, h))
        return "{" + (h() + "," + h()).join(parts) + "}"
    if t == "call":
        return n["f"] + "(" + (h() + "," + h()).join(render_expr(x, h) for x in n["a"]) + ")"
    raise ValueError(t)


def render(prog, ws=None, trailing=False):
    h = _Holes(ws)
    out = []
    for s in prog:
        out.append(s["var"] + h() + "=" + h() + render_expr(s["e"], h))
    text = (h() + ";" + h()).join(out)
    if trailing:
        text += h() + ";"
    return text


# ---------------------------------------------------------------------------
# reference parser (recursive descent over characters; shares nothing with aw_query)


class RefParseError(Exception):
    pass


class _P:
    def __init__(self, s):
        self.s = s
        self.i = 0

    def ws(self):
        while self.i < len(self.s) and self.s[self.i] in " \t\n\r":
            self.i += 1

    def peek(self):
        return self.s[self.i] if self.i < len(self.s) else ""

    def expect(self, ch):
        if self.peek() != ch:
            raise RefParseError(f"expected {ch!r} at {self.i}")
        self.i += 1

    def ident(self):
        j = self.i
        while j < len(self.s) and (self.s[j].isascii() and (self.s[j].isalpha() or self.s[j] == "_" or (j > self.i and self.s[j].isdigit()))):
            j += 1
        if j == self.i:
            raise RefParseError(f"identifier expected at {self.i}")
        name = self.s[self.i : j]
        self.i = j
        return name

    def expr(self):
        self.ws()
        c = self.peek()
        if c in ("'", '"'):
            q = c
            self.i += 1
            out = ""
            while True:
                if self.i >= len(self.s):
                    raise RefParseError("unterminated string")
                ch = self.s[self.i]
                if ch == "\\" and self.i + 1 < len(self.s) and self.s[self.i + 1] == q:
                    out += q
                    self.i += 2
                    continue
                if ch == "\\" or ch == ";":
                    raise RefParseError("backslash / semicolon inside a string is outside the reference grammar")
                if ch == q:
                    self.i += 1
                    return {"t": "str", "v": out, "q": q}
                out += ch
                self.i += 1
        if c.isascii() and c.isdigit():
            j = self.i
            while j < len(self.s) and self.s[j].isascii() and self.s[j].isdigit():
                j += 1
            v = self.s[self.i : j]
            self.i = j
            return {"t": "int", "v": v}
        if c == "[":
            self.i += 1
            items = self.seq("]", self.expr)
            return {"t": "list", "v": items}
        if c == "{":
            self.i += 1

            def pair():
                k = self.expr()
                if k["t"] != "str":
                    raise RefParseError("dict key must be a string")
                self.ws()
                self.expect(":")
                return [k, self.expr()]

            items = self.seq("}", pair)
            if len({k["v"] for k, _ in items}) != len(items):
                raise RefParseError("duplicate dict key")
            return {"t": "dict", "v": items}
        name = self.ident()
        if self.peek() == "(":
            self.i += 1
            return {"t": "call", "f": name, "a": self.seq(")", self.expr)}
        return {"t": "var", "v": name}

    def seq(self, close, item):
        out = []
        if self.peek() == close:
            self.i += 1
            return out
        while True:
            out.append(item())
            self.ws()
            if self.peek() == ",":
                self.i += 1
                continue
            self.expect(close)
            return out


def reference_parse(text):
    """Program text -> AST, or RefParseError. Statements are separated by ';' (strings never contain one)."""
    prog = []
    for stmt in text.split(";"):
        if not stmt.strip():
            continue
        p = _P(stmt)
        p.ws()
        name = p.ident()
        p.ws()
        p.expect("=")
        e = p.expr()
        p.ws()
        if p.i != len(stmt):
            raise RefParseError(f"trailing text at {p.i}: {stmt[p.i:]!r}")
        prog.append({"var": name, "e": e})
    return prog


# ---------------------------------------------------------------------------
# reference evaluator


class RefEvalError(Exception):
    pass


def initial_env(name, start_iso, end_iso):
    return {"True": True, "False": False, "true": True, "false": False, "NAME": name, "STARTTIME": start_iso, "ENDTIME": end_iso}


def _rules(classes):
    from aw_transform import Rule

    return [(c, Rule(r)) for c, r in classes]


def _table(ds, start, end):
    import aw_transform as T

    def find_bucket(filter_str, hostname=None):
        for b, meta in ds.buckets().items():
            if filter_str in b and (not hostname or meta["hostname"] == hostname):
                return b
        raise RefEvalError("no such bucket")

    def need_bucket(b):
        if b not in ds.buckets():
            raise RefEvalError("no such bucket")
        return b

    # The simple built-ins are re-stated here (new lists, arguments untouched) rather than borrowed from aw_transform,
    # so that e.g. a concat that extends its first argument in place is visible as a wrong value of that variable.
    import re as _re
    from datetime import timedelta as _td

    def _events(x):
        if not isinstance(x, list):
            raise RefEvalError("events argument is not a list")
        return x

    return {
        "find_bucket": find_bucket,
        "query_bucket": lambda b: ds[need_bucket(b)].get(starttime=start, endtime=end),
        "query_bucket_eventcount": lambda b: ds[need_bucket(b)].get_eventcount(starttime=start, endtime=end),
        "filter_keyvals": lambda ev, k, vals: [e for e in _events(ev) if k in e.data and e.data[k] in vals],
        "exclude_keyvals": lambda ev, k, vals: [e for e in _events(ev) if not (k in e.data and e.data[k] in vals)],
        "filter_keyvals_regex": lambda ev, k, rx: [e for e in _events(ev) if k in e.data and bool(_re.findall(rx, e.data[k]))],
        "filter_period_intersect": lambda a, b: T.filter_period_intersect(a, b),
        "period_union": lambda a, b: T.period_union(a, b),
        "limit_events": lambda ev, n: list(_events(ev)[:n]),
        "merge_events_by_keys": lambda ev, ks: T.merge_events_by_keys(ev, ks),
        "chunk_events_by_key": lambda ev, k: T.chunk_events_by_key(ev, k),
        # the order among equal keys and the float rounding of the sum are the functions' own business (C16):
        # they are borrowed, but on a copy of the list so that an in-place sort of the argument still shows
        "sort_by_timestamp": lambda ev: T.sort_by_timestamp(list(_events(ev))),
        "sort_by_duration": lambda ev: T.sort_by_duration(list(_events(ev))),
        "sum_durations": lambda ev: T.sum_durations(list(_events(ev))),
        "concat": lambda a, b: list(_events(a)) + list(_events(b)),
        "union_no_overlap": lambda a, b: T.union_no_overlap(a, b),
        "flood": lambda ev: T.flood(ev),
        "split_url_events": lambda ev: T.split_url_events(ev),
        "simplify_window_titles": lambda ev, k: T.simplify_string(ev, key=k),
        "nop": lambda: 1,
        "categorize": lambda ev, cl: T.categorize(ev, _rules(cl)),
        "tag": lambda ev, cl: T.tag(ev, _rules(cl)),
    }


def reference_eval(prog, ds, name, start, end):
    """Evaluates the AST directly: literals to themselves, variables to their latest
    binding, calls by applying the underlying function to ALL evaluated arguments in order."""
    env = initial_env(name, start.isoformat(), end.isoformat())
    table = _table(ds, start, end)

    def ev(n):
        t = n["t"]
        if t == "int":
            return int(n["v"])
        if t == "str":
            return n["v"]
        if t == "list":
            return [ev(x) for x in n["v"]]
        if t == "dict":
            return {k["v"]: ev(v) for k, v in n["v"]}
        if t == "var":
            if n["v"] not in env:
                raise RefEvalError(f"undefined variable {n['v']}")
            return env[n["v"]]
        if t == "call":
            if n["f"] not in table:
                raise RefEvalError(f"unknown function {n['f']}")
            args = [ev(x) for x in n["a"]]
            return table[n["f"]](*args)
        raise ValueError(t)

    for s in prog:
        env[s["var"]] = ev(s["e"])
    if "RETURN" not in env:
        raise RefEvalError("no RETURN")
    return env["RETURN"]


def canon_value(v):
    """Canonical JSON-able form of a query result."""
    from aw_core.models import Event

    if isinstance(v, Event):
        return {"__event": [v.id, gen.to_us(v.timestamp), gen.td_us(v.duration), canon_value(v.data)]}
    if isinstance(v, timedelta):
        return {"__td_us": gen.td_us(v)}
    if isinstance(v, dict):
        return {"__dict": sorted(([str(k), canon_value(x)] for k, x in v.items()), key=lambda kv: kv[0])}
    if isinstance(v, (list, tuple)):
        return [canon_value(x) for x in v]
    if isinstance(v, bool) or v is None or isinstance(v, (int, float, str)):
        return [type(v).__name__, v]
    if hasattr(v, "isoformat"):
        return {"__dt": v.isoformat()}
    return {"__repr": repr(v)}


# ---------------------------------------------------------------------------
# typed program generator

_STR_ALPHA = list("abcXYZ019 ()[]{},:='\"") + ["\n", "é", "日", "ß", "-", ".", "_", "#"]
KEYS = ["app", "title", "url", "status", "missing"]
VALS = ["Firefox", "vim", "afk", "not-afk", "x", "GitHub - Firefox", "(2) Facebook"]
REGEXES = ["Fire", "vim|Firefox", "^G", ".", "x$", "[a-z]+", "not"]
VARPOOL = ["a", "b", "events", "e2", "nop1", "concat_x", "RETURNED", "_u", "x9", "true", "not_afk", "tag_", "RETURN", "RETURN"]  # RETURN may be bound early and rebound later


def str_node(text_strategy):
    return st.tuples(text_strategy, st.sampled_from(["'", '"'])).map(lambda t: {"t": "str", "v": t[0], "q": t[1]})


def any_text():
    return st.lists(st.sampled_from(_STR_ALPHA), max_size=8).map("".join)


def lit_str(choices=None):
    if choices is not None:
        return str_node(st.sampled_from(choices))
    return str_node(any_text())


def lit_int():
    return st.one_of(st.sampled_from(["0", "1", "2", "3", "10", "007", "00", "010", "0123", "09", "0080"]), st.integers(0, 10**12).map(str)).map(lambda s: {"t": "int", "v": s})


def lit_any(depth=3):
    base = st.one_of(lit_int(), lit_str(), lit_str(VALS))
    if depth <= 0:
        return base
    sub = st.deferred(lambda: lit_any(depth - 1))
    return st.one_of(
        base,
        st.lists(sub, max_size=3).map(lambda v: {"t": "list", "v": v}),
        st.lists(st.tuples(lit_str(), sub), max_size=3, unique_by=lambda kv: kv[0]["v"]).map(lambda v: {"t": "dict", "v": [list(x) for x in v]}),
    )


def _list_of(s, max_size=3):
    return st.lists(s, max_size=max_size).map(lambda v: {"t": "list", "v": v})


def _rule_node():
    def mk(t):
        rx, ic, sk = t
        items = []
        if rx is not None:
            items.append([{"t": "str", "v": "regex", "q": '"'}, {"t": "str", "v": rx, "q": '"'}])
        if ic is not None:
            items.append([{"t": "str", "v": "ignore_case", "q": "'"}, {"t": "var", "v": ic}])
        if sk is not None:
            items.append([{"t": "str", "v": "select_keys", "q": '"'}, {"t": "list", "v": [{"t": "str", "v": k, "q": '"'} for k in sk]}])
        return {"t": "dict", "v": items}

    return st.tuples(st.one_of(st.none(), st.sampled_from(REGEXES)), st.sampled_from([None, "true", "false", "True"]), st.sampled_from([None, None, ["title"], ["app", "missing"]])).map(mk)


def _classes(kind):
    cat = _list_of(lit_str(["Work", "Media", "x", "y"]), 3).filter(lambda n: len(n["v"]) > 0) if kind == "categorize" else lit_str(["t1", "t2", "work"])
    pair = st.tuples(cat, _rule_node()).map(lambda t: {"t": "list", "v": [t[0], t[1]]})
    return _list_of(pair, 3)


@st.composite
def programs(draw, buckets, max_stmts=6, annotator_bias=False, allow_true_rebind=True):
    """A typed, well-formed program. `buckets` are ids of existing buckets."""
    env = {}  # var name -> type
    ntypes = ["events", "int", "str", "any"]

    def vars_of(ty):
        return [v for v, t in env.items() if t == ty]

    def gen_expr(ty, depth):
        use_var = vars_of(ty)
        if use_var and draw(st.integers(0, 2)) == 0:
            return {"t": "var", "v": draw(st.sampled_from(use_var))}
        if ty == "int":
            k = draw(st.integers(0, 5))
            if k == 0 and depth > 0:
                return {"t": "call", "f": "nop", "a": []}
            if k == 1 and depth > 0:
                return {"t": "call", "f": "query_bucket_eventcount", "a": [gen_expr("bucket", depth - 1)]}
            return draw(lit_int())
        if ty == "bucket":
            k = draw(st.integers(0, 4))
            if k == 0 and depth > 0:
                b = draw(st.sampled_from(buckets))
                # a fragment that identifies exactly one bucket (which of several matches find_bucket returns is not specified)
                i0 = draw(st.integers(0, len(b) - 1))
                i1 = draw(st.integers(i0 + 1, len(b)))
                frag = b[i0:i1]
                if sum(1 for x in buckets if frag in x) != 1:
                    frag = b
                args = [draw(lit_str([frag]))]
                if draw(st.booleans()):
                    args.append(draw(lit_str(["host1"])))
                return {"t": "call", "f": "find_bucket", "a": args}
            return draw(lit_str(buckets))
        if ty == "str":
            if depth > 0 and draw(st.integers(0, 4)) == 0:
                return gen_expr("bucket", depth)
            return draw(st.one_of(lit_str(), lit_str(VALS)))
        if ty == "key":
            return draw(lit_str(KEYS))
        if ty == "any":
            k = draw(st.integers(0, 5))
            if k == 0:
                return gen_expr("events", depth)
            if k == 1:
                return gen_expr("int", depth)
            if k == 2 and depth > 0:
                return {"t": "call", "f": "sum_durations", "a": [gen_expr("events", depth - 1)]}
            if k == 3 and depth > 0:
                # containers holding calls and variables
                if draw(st.booleans()):
                    return {"t": "list", "v": [gen_expr(draw(st.sampled_from(ntypes)), depth - 1) for _ in range(draw(st.integers(0, 3)))]}
                keys = draw(st.lists(lit_str(), max_size=3, unique_by=lambda k_: k_["v"]))
                return {"t": "dict", "v": [[k_, gen_expr(draw(st.sampled_from(ntypes)), depth - 1)] for k_ in keys]}
            return draw(lit_any(3))
        if ty == "events":
            if depth <= 0:
                k = draw(st.integers(0, 2))
                if k == 0:
                    return {"t": "list", "v": []}
                return {"t": "call", "f": "query_bucket", "a": [draw(lit_str(buckets))]}
            E = lambda: gen_expr("events", depth - 1)
            choices = [
                "query_bucket",
                "query_bucket",
                "empty",
                "filter_keyvals",
                "exclude_keyvals",
                "filter_keyvals_regex",
                "filter_period_intersect",
                "period_union",
                "limit_events",
                "merge_events_by_keys",
                "chunk_events_by_key",
                "sort_by_timestamp",
                "sort_by_duration",
                "concat",
                "union_no_overlap",
                "flood",
                "split_url_events",
                "simplify_window_titles",
                "categorize",
                "tag",
            ]
            if annotator_bias:
                choices += ["categorize", "tag", "split_url_events", "period_union", "flood", "categorize", "tag", "simplify_window_titles"]
            f = draw(st.sampled_from(choices))
            if f == "empty":
                return {"t": "list", "v": []}
            if f == "query_bucket":
                return {"t": "call", "f": f, "a": [gen_expr("bucket", depth - 1)]}
            if f in ("filter_keyvals", "exclude_keyvals"):
                return {"t": "call", "f": f, "a": [E(), gen_expr("key", 0), draw(_list_of(lit_str(VALS)))]}
            if f == "filter_keyvals_regex":
                return {"t": "call", "f": f, "a": [E(), draw(lit_str(["app", "title"])), draw(lit_str(REGEXES))]}
            if f in ("filter_period_intersect", "period_union", "concat", "union_no_overlap"):
                return {"t": "call", "f": f, "a": [E(), E()]}
            if f == "limit_events":
                return {"t": "call", "f": f, "a": [E(), gen_expr("int", depth - 1)]}
            if f == "merge_events_by_keys":
                return {"t": "call", "f": f, "a": [E(), draw(_list_of(lit_str(KEYS)))]}
            if f in ("chunk_events_by_key", "simplify_window_titles"):
                return {"t": "call", "f": f, "a": [E(), gen_expr("key", 0)]}
            if f in ("categorize", "tag"):
                return {"t": "call", "f": f, "a": [E(), draw(_classes(f))]}
            return {"t": "call", "f": f, "a": [E()]}
        raise ValueError(ty)

    n = draw(st.integers(1, max_stmts))
    prog = []
    for i in range(n):
        last = i == n - 1
        ty = draw(st.sampled_from(["events", "events", "int", "str", "any"]))
        e = gen_expr(ty, draw(st.integers(0, 3)))
        if last:
            name = "RETURN"
        else:
            name = draw(st.sampled_from(VARPOOL if allow_true_rebind else [v for v in VARPOOL if v != "true"]))
            env[name] = ty
        prog.append({"var": name, "e": e})
    return prog


def walk(node):
    yield node
    t = node["t"]
    if t == "list":
        for x in node["v"]:
            yield from walk(x)
    elif t == "dict":
        for k, v in node["v"]:
            yield from walk(k)
            yield from walk(v)
    elif t == "call":
        for x in node["a"]:
            yield from walk(x)


def prog_nodes(prog):
    for s in prog:
        yield from walk(s["e"])
