"""Child for C06's 'exit without shutdown' mode: runs a seeded history on a disk file and leaves the
interpreter by a normal sys.exit() at the first operation return after K statements, never closing the store.

usage: python -m vlib.crash_child BACKEND PATH SEED N_OPS K
"""
import sys

from vlib import env

env.init()
from vlib import crash, stores  # noqa: E402


class _ExitAfter:
    def __init__(self, k):
        self.k = k
        self.n = 0

    def start(self, runner, L0):
        self.tracer = stores.Tracer(runner.ds, self.on_statement)

    def on_statement(self, sql):
        self.n += 1

    def on_return(self, i, op, kind, L):
        if self.n >= self.k:
            sys.exit(0)


backend, path, seed, n_ops, k = sys.argv[1], sys.argv[2], int(sys.argv[3]), int(sys.argv[4]), int(sys.argv[5])
r = crash.Runner(backend, path, hooks=_ExitAfter(k))
r.run(crash.seeded_history(seed, n_ops))
sys.exit(0)
