"""History interpreter and crash-point observers for the file-backed stores (C06, C18).

A history is a JSON list of operations over a pool of three bucket names; targets are
symbolic (k-th live event id) and resolved against the writer's own raw dump, never
through API reads (which would force a commit on the SQLite store).
"""
import json
import os
import random
import sqlite3
from datetime import timedelta

from . import gen, stores

BUCKETS = ["bk-a", "bk-b", "bk-c", "bk-stale"]  # the last one is only used by the bulk_stale expansion
BASE_US = 1_650_000_000_000_000
SINGLE = {"insert", "replace", "replace_last", "delete"}
BUCKET_LEVEL = {"create_bucket", "update_bucket", "delete_bucket"}


def expand(ops):
    """delete_run -> that many single deletes; everything else unchanged."""
    out = []
    for op in ops:
        if op["op"] == "delete_run":
            for i in range(op["n"]):
                out.append({"op": "delete", "b": op["b"], "k": op.get("k", 0) + i})
        elif op["op"] == "backlog_then_bucket_op":
            # flush, buffer exactly n single writes (n around the count threshold), then a bucket-level operation:
            # its own statements must not trip the lazy commit half-way through
            out.append({"op": "read", "b": op["b"], "kind": "count"})
            for i in range(op["n"]):
                out.append({"op": "insert", "b": op["b"], "e": [i % 50, i % 4, "abc"[i % 3]]})
            out.append({"op": op["then"], "b": op["b2"], "v": op.get("v", 0)})
        elif op["op"] == "heartbeat_run":
            # the heartbeat pattern: the newest event rewritten again and again with the same start and data, only longer
            out.append({"op": "insert", "b": op["b"], "e": [49, 0, "h"]})
            for i in range(op["n"]):
                out.append({"op": "extend_last", "b": op["b"], "dur_s": 1 + i})
        elif op["op"] == "big_bucket_delete":
            # a bucket with more than a thousand events, then its deletion: still one indivisible operation
            out.append({"op": "bulk", "b": op["b"], "n": op["n"], "seed": op.get("v", 0), "upd": 0})
            out.append({"op": "delete_bucket", "b": op["b"]})
        elif op["op"] == "bulk_stale":
            # make a handle go stale (create, delete), then bulk-insert through it: must be rejected and change nothing
            out.append({"op": "create_bucket", "b": 3})
            out.append({"op": "delete_bucket", "b": 3})
            out.append({"op": "bulk_stale", "b": 3})
        else:
            out.append(op)
    return out


def _spec_event(Event, slot, dur_s, label, eid=None):
    return Event(id=eid, timestamp=gen.dt_utc(BASE_US + slot * 10**6), duration=timedelta(seconds=dur_s), data={"l": label})


def live_ids(L, backend):
    """bucket id string -> sorted event ids, from a raw dump (harness-side schema knowledge, used only to form valid operations)."""
    if backend == "sqlite":
        bt, et = "buckets", "events"
        rows = {rid: row[1] for (t, rid), row in L.items() if t == bt}  # rowid -> id string
        out = {name: [] for name in rows.values()}
        for (t, rid), row in L.items():
            if t == et and row[1] in rows:
                out[rows[row[1]]].append(rid)
    else:
        bt, et = "bucketmodel", "eventmodel"
        rows = {rid: row[1] for (t, rid), row in L.items() if t == bt}
        out = {name: [] for name in rows.values()}
        for (t, rid), row in L.items():
            if t == et and row[1] in rows:
                out[rows[row[1]]].append(rid)
    for v in out.values():
        v.sort()
    return out


def newest_start_us(L, backend, name):
    """start instant (us) of the newest event of a bucket, from a raw dump"""
    bt, et = ("buckets", "events") if backend == "sqlite" else ("bucketmodel", "eventmodel")
    rid = next((r for (t, r), row in L.items() if t == bt and row[1] == name), None)
    best = None
    for (t, _), row in L.items():
        if t == et and row[1] == rid:
            if backend == "sqlite":
                us = int(round(row[2]))
            else:
                import iso8601

                us = gen.to_us(iso8601.parse_date(row[2]))
            best = us if best is None or us > best else best
    return best


class Runner:
    """Runs a history on a store; calls hooks.on_return(i, op, kind) after every elementary operation."""

    def __init__(self, backend, path, hooks=None, **storekw):
        self.backend = backend
        self.path = path
        self.hooks = hooks
        self.ds = stores.open_store(backend, path, **storekw)
        self.writer = stores.writer_conn(self.ds)
        self.skipped = 0
        self.stale = {}  # bucket name -> Bucket handle obtained while it existed
        self.side = None  # a second store on another file (operation "elsewhere")

    def close(self):
        stores.close_store(self.ds)
        if self.side is not None:
            stores.close_store(self.side)
            from . import env as _env

            _env.rm(self.path + ".side")

    def dump(self):
        return stores.raw_dump(self.writer)

    def run(self, ops):
        from aw_core.models import Event

        ds = self.ds
        L = self.dump()
        if self.hooks:
            self.hooks.start(self, L)
        for i, op in enumerate(expand(ops), 1):
            kind = op["op"]
            name = BUCKETS[3] if op["b"] == 3 else BUCKETS[op["b"] % 3]
            if self.hooks and hasattr(self.hooks, "before"):
                self.hooks.before(i, op)
            ids = live_ids(L, self.backend)
            exists = name in ids
            done = kind
            if exists:
                self.stale[name] = ds[name]
            if kind == "delete_missing":
                done = "rejected"
                try:
                    ds.delete_bucket(f"no-such-bucket-{op.get('v', 0)}")
                except ValueError:
                    pass
            elif kind == "bulk_stale" and not exists and name in self.stale:
                done = "rejected"  # a bulk insert through a handle of a bucket that has been deleted
                try:
                    self.stale[name].insert([_spec_event(Event, 1, 1, "s"), _spec_event(Event, 2, 1, "s")])
                except Exception:
                    pass
            elif kind == "bulk_stale":
                done = "read"
                ds.buckets()
            elif kind == "create_bucket":
                if exists:
                    kind = done = "update_bucket"
                    ds.update_bucket(name, hostname=f"h{i}")
                else:
                    ds.create_bucket(name, type="t", client="c", hostname="h", created=gen.dt_utc(BASE_US), data={"n": i})
            elif not exists:
                done = "create_bucket"
                ds.create_bucket(name, type="t", client="c", hostname="h", created=gen.dt_utc(BASE_US))
            elif kind == "update_bucket":
                ds.update_bucket(name, hostname=f"h{op.get('v', i)}", data={"v": op.get("v", i)})
            elif kind == "delete_bucket":
                ds.delete_bucket(name)
            elif kind == "insert":
                ds[name].insert(_spec_event(Event, *op["e"]))
            elif kind == "bulk":
                rnd = random.Random(op["seed"])
                evs = [_spec_event(Event, rnd.randrange(50), rnd.randrange(4), rnd.choice("abc")) for _ in range(op["n"])]
                mine = ids[name]
                used = set()
                for u in range(min(op.get("upd", 0), len(mine))):
                    eid = mine[(op["seed"] + u * 7) % len(mine)]
                    if eid in used:  # an id appears at most once per bulk list
                        continue
                    used.add(eid)
                    evs.insert(rnd.randrange(len(evs) + 1), _spec_event(Event, rnd.randrange(50), 1, "u", eid))
                ds[name].insert(evs)
            elif kind in ("replace", "replace_last", "delete"):
                mine = ids[name]
                if not mine:
                    done = "insert"
                    ds[name].insert(_spec_event(Event, 1, 1, "z"))
                elif kind == "replace":
                    ds[name].replace(mine[op["k"] % len(mine)], _spec_event(Event, *op["e"]))
                elif kind == "replace_last":
                    ds[name].replace_last(_spec_event(Event, *op["e"]))
                else:
                    ds[name].delete(mine[op["k"] % len(mine)])
            elif kind == "extend_last":
                done = "replace_last"
                top = newest_start_us(L, self.backend, name)
                if top is None:
                    done = "insert"
                    ds[name].insert(_spec_event(Event, 1, 1, "z"))
                else:
                    ds[name].replace_last(Event(timestamp=gen.dt_utc(top), duration=timedelta(seconds=op.get("dur_s", 1)), data={"l": "h"}))
            elif kind == "elsewhere":
                # another store of the same kind, alive in the same process on another file, is read and written (a read makes it
                # commit): nothing about the store under observation may depend on it. Reported to the hooks as a read: the
                # writer's view must be unchanged
                done = "read"
                if self.backend == "sqlite":
                    if self.side is None:
                        self.side = stores.open_store("sqlite", self.path + ".side")
                        stores.create_bucket(self.side, "side")
                    sb = self.side["side"]
                    sb.get(limit=1)
                    sb.insert(_spec_event(Event, op.get("v", 0) % 50, 1, "s"))
                    if op.get("v", 0) % 2:
                        sb.get_eventcount()
            elif kind == "read":
                done = "read"
                b = ds[name]
                which = op.get("kind", "get")
                if which == "get":
                    b.get(limit=op.get("limit", 1))
                elif which == "count":
                    b.get_eventcount()
                else:
                    mine = ids[name]
                    b.get_by_id(mine[0] if mine else 1)
            else:
                raise ValueError(kind)
            L = self.dump()
            if self.hooks:
                self.hooks.on_return(i, op, done, L)
        return L


# ---------------------------------------------------------------------------
# history generation (Hypothesis strategy and a seeded twin for the real-crash phases)


def history_strategy(max_ops=60, with_reads=True, max_bulk=130):
    from hypothesis import strategies as st

    ev = st.tuples(st.integers(0, 50), st.integers(0, 3), st.sampled_from("abc")).map(list)
    b = st.integers(0, 2)
    single = st.one_of(
        st.fixed_dictionaries({"op": st.just("insert"), "b": b, "e": ev}),
        st.fixed_dictionaries({"op": st.just("insert"), "b": b, "e": ev}),
        st.fixed_dictionaries({"op": st.just("replace"), "b": b, "k": st.integers(0, 500), "e": ev}),
        st.fixed_dictionaries({"op": st.just("replace_last"), "b": b, "e": ev}),
        st.fixed_dictionaries({"op": st.just("delete"), "b": b, "k": st.integers(0, 500)}),
    )
    bulk = st.fixed_dictionaries({"op": st.just("bulk"), "b": b, "n": st.one_of(st.integers(0, 12), st.sampled_from([0, 0, 49, 50, 51, 99, 100, 101]), st.integers(0, max_bulk)), "seed": st.integers(0, 10**6), "upd": st.one_of(st.integers(0, 5), st.sampled_from([20, 60, 120]))})
    hbrun = st.fixed_dictionaries({"op": st.just("heartbeat_run"), "b": b, "n": st.sampled_from([3, 30, 60, 90])})
    delrun = st.fixed_dictionaries({"op": st.just("delete_run"), "b": b, "n": st.integers(2, 90), "k": st.integers(0, 50)})
    bucket = st.fixed_dictionaries({"op": st.sampled_from(["create_bucket", "update_bucket", "delete_bucket"]), "b": b, "v": st.integers(0, 9)})
    read = st.fixed_dictionaries({"op": st.just("read"), "b": b, "kind": st.sampled_from(["get", "count", "by_id"])})
    rejected = st.fixed_dictionaries({"op": st.sampled_from(["delete_missing", "bulk_stale", "bulk_stale"]), "b": b, "v": st.integers(0, 9)})
    backlog = st.fixed_dictionaries({"op": st.just("backlog_then_bucket_op"), "b": b, "b2": b, "n": st.sampled_from([48, 49, 50, 50, 51]), "then": st.sampled_from(["delete_bucket", "delete_bucket", "update_bucket", "create_bucket"]), "v": st.integers(0, 9)})
    big = st.fixed_dictionaries({"op": st.just("big_bucket_delete"), "b": b, "n": st.sampled_from([1001, 1100, 2100]), "v": st.integers(0, 99)})
    elsewhere = st.fixed_dictionaries({"op": st.just("elsewhere"), "b": b, "v": st.integers(0, 9)})
    parts = [single, single, single, single, single, single, bulk, delrun, bucket, rejected, backlog, hbrun] * 3 + [big, elsewhere, elsewhere, elsewhere]
    if with_reads:
        parts.append(read)
    return st.lists(st.one_of(*parts), min_size=5, max_size=max_ops)


def seeded_history(seed, n_ops=80):
    rnd = random.Random(seed)
    ops = []
    for _ in range(n_ops):
        r = rnd.random()
        b = rnd.randrange(3)
        e = [rnd.randrange(50), rnd.randrange(4), rnd.choice("abc")]
        if r < 0.45:
            ops.append({"op": "insert", "b": b, "e": e})
        elif r < 0.55:
            ops.append({"op": "replace", "b": b, "k": rnd.randrange(500), "e": e})
        elif r < 0.62:
            ops.append({"op": "replace_last", "b": b, "e": e})
        elif r < 0.72:
            ops.append({"op": "delete", "b": b, "k": rnd.randrange(500)})
        elif r < 0.80:
            ops.append({"op": "bulk", "b": b, "n": rnd.choice([0, 3, 12, 49, 51, 100, 101, 130]), "seed": rnd.randrange(10**6), "upd": rnd.randrange(4)})
        elif r < 0.84:
            ops.append({"op": "delete_run", "b": b, "n": rnd.randrange(2, 70), "k": rnd.randrange(50)})
        elif r < 0.92:
            ops.append({"op": rnd.choice(["create_bucket", "update_bucket", "delete_bucket"]), "b": b, "v": rnd.randrange(10)})
        elif r < 0.95:
            ops.append({"op": rnd.choice(["delete_missing", "bulk_stale"]), "b": b, "v": rnd.randrange(10)})
        elif r < 0.96:
            ops.append({"op": "backlog_then_bucket_op", "b": b, "b2": rnd.choice([b, rnd.randrange(3)]), "n": rnd.choice([49, 50, 51]), "then": rnd.choice(["delete_bucket", "update_bucket"]), "v": rnd.randrange(10)})
        else:
            ops.append({"op": "read", "b": b, "kind": rnd.choice(["get", "count", "by_id"])})
    return ops


# ---------------------------------------------------------------------------
# observers


def diff_count(a, b):
    n = 0
    for k, v in a.items():
        if b.get(k, None) != v:
            n += 1
    for k in b:
        if k not in a:
            n += 1
    return n


def between(D, A, B):
    """every row of D equals that row in A or in B (missing counts as a value)."""
    for k in set(D) | set(A) | set(B):
        d = D.get(k)
        if d != A.get(k) and d != B.get(k):
            return False
    return True


class Observer:
    """A second connection to the database file: sees exactly the committed state,
    i.e. what a process death at this moment would leave behind."""

    def __init__(self, path):
        self.conn = sqlite3.connect(path, timeout=30, isolation_level=None)
        self.dv = None
        self.D = None
        self.dumps = 0

    def current(self):
        v = self.conn.execute("PRAGMA data_version").fetchone()[0]
        if self.D is None or v != self.dv:
            self.D = stores.raw_dump(self.conn)
            self.dv = v
            self.dumps += 1
        return self.D

    def close(self):
        self.conn.close()
