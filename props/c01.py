"""C01 — stored events come back exactly as inserted, and the store owns its copy."""
import json
import random

from hypothesis import strategies as st

from vlib import gen, stores
from vlib.runner import Stats, Violation, sut

ID = "C01"
RULE = (
    "case = backend in {memory, sqlite, peewee} x 1..10 id-less events (instant 1970..2100 boundary-biased, any UTC offset, duration 0..30 d at us "
    "granularity, nested JSON data incl. unicode/quotes/floats/null) x insertion mode (single | bulk | mixed; a bulk list may contain the same Event object several times) x mutation script. Oracle (a) fidelity: listing "
    "returns exactly the inserted events, each with a distinct non-null id, instant == generated instant floored to ms (integer arithmetic), duration == to the "
    "us, data equal; get_by_id agrees; single insert returns the id later listed. (b) ownership: after mutating the caller's event objects (nested data in place, "
    "timestamp, duration, keys), every event handed out by get/get_by_id, and the dicts handed out by metadata()/buckets() (incl. nested data), all reads equal "
    "the pre-mutation snapshot. Non-trivial = some event has a sub-ms instant or non-zero sub-ms duration AND some data value is a nested container. "
    "Extra phase 'bulk': bulk inserts of 500..2000 uniformly random instants/durations per backend, fidelity only; 'bulk_huge': one batch of 10 500 (thorough: 70 000) events on the two SQL backends."
)
ASSUMPTIONS = [
    "only id-less insertion (the property says 'inserted without an id')",
    "JSON data excludes NaN/Infinity; equality is Python equality after one json round trip on the expected side",
    "bucket 'name' is not compared",
]


def budget(tier):
    return 200 if tier == "quick" else 2500


@st.composite
def strategy(draw, tier="quick"):
    n = draw(st.integers(1, 10))
    evs = []
    for _ in range(n):
        us, off = draw(gen.stamps())
        evs.append({"us": us, "off": off, "dur_us": draw(gen.durations_us()), "data": draw(gen.json_data(8, surrogates=True))})
    return {
        "backend": draw(st.sampled_from(stores.BACKENDS)),
        "events": evs,
        "mode": draw(st.sampled_from(["single", "bulk", "mixed"])),
        "split": draw(st.integers(0, n)),
        "meta_data": draw(st.one_of(st.none(), gen.json_data(4).filter(lambda d: len(d) > 0))),
        "repeat": draw(st.one_of(st.just([]), st.just([]), st.lists(st.integers(0, 99), min_size=1, max_size=3))),
        "pre_buckets": draw(st.integers(0, 2)),
        "rejected_bulk": draw(st.integers(0, 3)) == 0,
    }


def known_key(case, v):
    return v.key


def _mutate_event(e):
    from datetime import timedelta

    d = e.data
    for k in list(d):
        v = d[k]
        if isinstance(v, dict):
            v["__mutated"] = 1
        elif isinstance(v, list):
            v.append("__mutated")
    d["__mutated_top"] = [1]
    d.pop("_m", None)
    e.timestamp = gen.dt_utc(123456789000)
    e.duration = timedelta(seconds=424242)
    e["extra"] = 1


def _mutate_meta(m):
    for k in list(m):
        if isinstance(m[k], dict):
            for kk in list(m[k]):
                if isinstance(m[k][kk], (dict, list)):
                    try:
                        m[k][kk].clear()
                    except Exception:
                        pass
            m[k]["__mutated"] = {"x": 1}
        else:
            m[k] = "__mutated"
    m["__new"] = 1


def _read_all(b, backend):
    with sut(f"{backend}: get(limit=-1)"):
        lst = b.get(limit=-1)
    return lst


def run_case(case):
    from aw_core.models import Event

    backend = case["backend"]
    specs = case["events"]
    with stores.store(backend) as ds:
        with sut(f"{backend}: create_bucket"):
            kw = {}
            if case["meta_data"] is not None:
                kw["data"] = json.loads(json.dumps(case["meta_data"]))
            for k_ in range(case.get("pre_buckets", 0)):  # so that the bucket's row id is not the same in every store of this process
                stores.create_bucket(ds, f"other{k_}")
            b = stores.create_bucket(ds, "b1", name="nm", **kw)
            gone = None
            if case.get("rejected_bulk"):  # a handle that has gone stale before anything is inserted (bucket operations commit)
                gone = stores.create_bucket(ds, "gone")
                ds.delete_bucket("gone")
        objs = []
        for i, s in enumerate(specs):
            e = stores.mk_event(Event, s)
            e.data["_m"] = i
            objs.append(e)
        mode = case["mode"]
        k = {"single": len(objs), "bulk": 0, "mixed": case["split"]}[mode]
        returned = {}
        for i, e in enumerate(objs[:k]):
            with sut(f"{backend}: insert(event)"):
                r = b.insert(e)
            if r is None or r.id is None:
                raise Violation(f"{backend}: single insert did not return an event with an id")
            returned[i] = r.id
        bulk = list(objs[k:])
        mult = {i: 1 for i in range(len(specs))}
        if bulk:
            # the same Event object may appear several times in one bulk list (the repository's own tests insert n * [event]):
            # each occurrence is an insertion of its own
            n0 = len(bulk)
            for r in case.get("repeat", []):
                j = k + r % n0
                bulk.insert((r // 7) % (len(bulk) + 1), objs[j])
                mult[j] += 1
            with sut(f"{backend}: insert([events])"):
                b.insert(bulk)
        total = sum(mult.values())
        if case.get("rejected_bulk"):
            # an operation that is rejected (bulk insert through the handle of a bucket that no longer exists) must not take
            # earlier accepted inserts with it
            try:
                gone.insert([stores.mk_event(Event, specs[0]), stores.mk_event(Event, specs[0])])
            except Exception:
                pass

        def snapshot():
            lst = _read_all(b, backend)
            out = {}
            for ev in lst:
                out.setdefault(ev.data.get("_m"), []).append((ev.id, gen.to_us(ev.timestamp), gen.td_us(ev.duration), json.dumps(ev.data, sort_keys=True)))
            for v in out.values():
                v.sort(key=lambda t: (t[0] is None, t[0]))
            return lst, out

        lst, snap = snapshot()
        if len(lst) != total:
            raise Violation(f"{backend}: inserted {total} events ({mode}), listing returns {len(lst)}")
        ids = [t[0] for v in snap.values() for t in v]
        if any(i is None for i in ids) or len(set(ids)) != len(ids):
            raise Violation(f"{backend}: ids not unique / missing: {sorted(ids, key=str)}")
        for i, s in enumerate(specs):
            if len(snap.get(i, [])) != mult[i]:
                raise Violation(f"{backend}: event #{i} was inserted {mult[i]} time(s) but is listed {len(snap.get(i, []))} time(s)")
            exp_data = dict(json.loads(json.dumps(s["data"])), _m=i)
            for eid, ts, dur, dj in snap[i]:
                if ts != gen.floor_ms(s["us"]):
                    raise Violation(f"{backend}: instant {s['us']} us (offset {s['off']} min) read back as {ts} us, expected {gen.floor_ms(s['us'])}")
                if dur != s["dur_us"]:
                    raise Violation(f"{backend}: duration {s['dur_us']} us read back as {dur} us (instant {s['us']})")
                if json.loads(dj) != exp_data:
                    raise Violation(f"{backend}: data {exp_data!r} read back as {json.loads(dj)!r}")
                with sut(f"{backend}: get_by_id"):
                    one = b.get_by_id(eid)
                if one is None or (one.id, gen.to_us(one.timestamp), gen.td_us(one.duration), json.dumps(one.data, sort_keys=True)) != (eid, ts, dur, dj):
                    raise Violation(f"{backend}: get_by_id({eid}) = {one!r} disagrees with listing {(eid, ts, dur, dj)}")
            if i in returned and returned[i] != snap[i][0][0]:
                raise Violation(f"{backend}: single insert returned id {returned[i]} but the event is listed with id {snap[i][0][0]}")
        with sut(f"{backend}: metadata"):
            meta_before = stores.norm_meta(b.metadata())
            buckets_before = {k2: stores.norm_meta(v) for k2, v in ds.buckets().items()}
        # ---- ownership
        for e in objs:
            _mutate_event(e)
        _, after = snapshot()
        if after != snap:
            raise Violation(f"{backend}: mutating the caller's event objects after insert ({mode}) changed what the store returns", key="memory_shallow_copy" if backend == "memory" else None)
        for ev in lst:
            _mutate_event(ev)
        for eid in ids:
            one = b.get_by_id(eid)
            _mutate_event(one)
        _, after = snapshot()
        if after != snap:
            raise Violation(f"{backend}: mutating events handed out by get/get_by_id changed what the store returns")
        m1 = b.metadata()
        m2 = ds.buckets()
        _mutate_meta(m1)
        for v in m2.values():
            _mutate_meta(v)
        m2["__new_bucket"] = {}
        with sut(f"{backend}: metadata (second read)"):
            meta_after = stores.norm_meta(b.metadata())
            buckets_after = {k2: stores.norm_meta(v) for k2, v in ds.buckets().items()}
        if meta_after != meta_before or buckets_after != buckets_before:
            raise Violation(f"{backend}: mutating a metadata dict handed out by the store changed later reads: {meta_before} -> {meta_after}", key="memory_metadata_alias" if backend == "memory" else None)
        _, after = snapshot()
        if after != snap:
            raise Violation(f"{backend}: events changed after metadata mutation")
    sub = any(s["us"] % 1000 or (s["dur_us"] % 1000) for s in specs)
    nested = any(gen.has_nested(s["data"]) for s in specs)
    classes = [backend, "mode_" + mode]
    if sub:
        classes.append("sub_ms")
    if nested:
        classes.append("nested_data")
    if any(s["off"] for s in specs):
        classes.append("offset_nonzero")
    return {"nontrivial": sub and nested, "classes": classes, "evals": len(specs)}


# ---------------------------------------------------------------------------
# bulk fidelity over many instants


def extra_phases(tier, seed, jobs):
    tasks = []
    batches = 1 if tier == "quick" else 12
    n = 500 if tier == "quick" else 2000
    for w in range(jobs):
        tasks.append({"seed": seed * 1000 + w, "backend": stores.BACKENDS[w % 3], "batches": batches, "n": n})
    # one batch far larger than anything the repository's tests insert at once (limits on SQL variables, compound statements, pages)
    big = 10_500 if tier == "quick" else 70_000
    huge = [{"seed": seed * 77 + k, "backend": be, "n": big} for k, be in enumerate(("sqlite", "peewee"))]
    return [("bulk", "phase_bulk", tasks), ("bulk_huge", "phase_bulk_huge", huge)]


def phase_bulk_huge(task):
    st_ = Stats()
    specs = _bulk_specs(random.Random(task["seed"]), task["n"])
    try:
        _check_bulk(task["backend"], specs)
    except Violation as v:
        st_.failure = {"kind": "bulk_seeded", "case": task, "message": v.msg}
        return st_
    st_.evals = len(specs)
    st_.classes[task["backend"] + "_one_batch_of"] = len(specs)
    return st_


def replay_bulk_seeded(task):
    _check_bulk(task["backend"], _bulk_specs(random.Random(task["seed"]), task["n"]))


def _bulk_specs(rnd, n):
    specs = []
    for i in range(n):
        kind = rnd.randrange(4)
        if kind == 0:
            us = rnd.randrange(gen.MAX_US)
        elif kind == 1:
            us = rnd.randrange(gen.MAX_S) * 10**6 + rnd.choice([0, 1, 999, 1000, 999000, 999999, 500000, 999499, 999500])
        elif kind == 2:
            us = min(gen.MAX_US - 1, max(0, rnd.choice([0, 2**31, 2**30, gen.MAX_S - 2]) * 10**6 + rnd.randrange(-2 * 10**6, 2 * 10**6)))
        else:
            us = rnd.randrange(2**31 * 10**6, gen.MAX_US)
        dur = rnd.choice([0, 1, 999, rnd.randrange(10**7), rnd.randrange(30 * gen.DAY_US), rnd.randrange(gen.DAY_US)])
        specs.append({"us": us, "off": rnd.choice([0, 0, 60, -480, 345, 840, -840]), "dur_us": dur, "data": {"_m": i}})
    return specs


def _check_bulk(backend, specs):
    from aw_core.models import Event

    with stores.store(backend) as ds:
        b = stores.create_bucket(ds, "b1")
        evs = [stores.mk_event(Event, s) for s in specs]
        with sut(f"{backend}: bulk insert of {len(evs)}"):
            b.insert(evs)
            lst = b.get(limit=-1)
        if len(lst) != len(specs):
            raise Violation(f"{backend}: bulk-inserted {len(specs)} events, listing returns {len(lst)}")
        seen = set()
        for ev in lst:
            s = specs[ev.data["_m"]]
            if ev.id is None or ev.id in seen:
                raise Violation(f"{backend}: duplicate or missing id {ev.id}")
            seen.add(ev.id)
            if gen.to_us(ev.timestamp) != gen.floor_ms(s["us"]) or gen.td_us(ev.duration) != s["dur_us"]:
                raise Violation(
                    f"{backend}: instant {s['us']} us / duration {s['dur_us']} us read back as {gen.to_us(ev.timestamp)} / {gen.td_us(ev.duration)}",
                    detail={"spec": s},
                )


def phase_bulk(task):
    st_ = Stats()
    rnd = random.Random(task["seed"])  # seeded, deterministic: part of the run's pure function of VERIF_SEED
    for _ in range(task["batches"]):
        specs = _bulk_specs(rnd, task["n"])
        try:
            _check_bulk(task["backend"], specs)
        except Violation as v:
            # shrink to the single offending event if possible
            bad = (v.detail or {}).get("spec")
            case = {"backend": task["backend"], "specs": [dict(bad, data={"_m": 0})] if bad else specs}
            if bad:
                try:
                    _check_bulk(task["backend"], case["specs"])
                    case["specs"] = specs
                except Violation:
                    pass
            st_.failure = {"kind": "bulk", "case": case, "message": v.msg}
            break
        st_.evals += len(specs)
        st_.classes[task["backend"] + "_instants"] += len(specs)
    st_.notes["instants_checked"] = st_.evals
    return st_


def replay_bulk(p):
    _check_bulk(p["backend"], p["specs"])
