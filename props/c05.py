"""C05 — bucket lifecycle: create, list, describe, update, delete behave as a keyed map."""
import json

from hypothesis import strategies as st

from vlib import gen, stores
from vlib.runner import Stats, Violation, sut

ID = "C05"
RULE = (
    "case = backend x history of 1..30 operations over a pool of 4 bucket ids (ASCII, unicode, ids with quotes/%/spaces): create (only non-live ids; non-empty "
    "type/client/hostname; created at any UTC offset; name given or omitted; nested data or omitted), update (non-empty subset of type_id/client/hostname/name/data, "
    "all non-empty), delete, event writes, and lookups ds[id] / metadata() through fresh and STALE handles (kept from before a delete); about a quarter of "
    "lookups/updates/deletes target a non-live id. Oracle: dict model id -> metadata + events; after every step flagged for checking (about half, and always the last; unflagged steps run without any read in between, so buffered writes stay buffered) buckets() has exactly the model's keys and per "
    "bucket equal id/type/client/hostname, created equal as an instant, name equal when one was given or set, data equal ({} when omitted), events equal as a "
    "multiset; new and re-created buckets are empty; non-live id: ds[id] raises KeyError, stale metadata()/update/delete raise ValueError, and the store still equals the model (nothing changed, buffered writes included). Non-trivial = the history re-creates a previously deleted id that had events, or uses a stale handle."
)
ASSUMPTIONS = [
    "creating an id that is already live is not generated (backends differ and the property is silent)",
    "update values are non-empty strings / non-empty dicts (the property says non-empty)",
    "an omitted name is not compared (memory defaults it to the id, SQL stores NULL)",
]
POOL = ["aw-watcher-test", "bücket-ü-日本", "it's \"quoted\" 100% b", "b;DROP TABLE--"]
TXT = ["x", "y", "host-1", "ünï", "a b", "'q'", "%"]


def budget(tier):
    return 300 if tier == "quick" else 5000


def _data():
    return st.one_of(st.just({"k": 1}), st.just({"n": {"m": [1, {"z": None}]}, "s": "ü"}), gen.json_data(5).filter(lambda d: len(d) > 0))


@st.composite
def strategy(draw, tier="quick"):
    ops = []
    npool = draw(st.sampled_from([1, 1, 2, 2, 3, 4]))  # small pools make delete/re-create of the same id frequent
    shift = draw(st.integers(0, 3))
    for _ in range(draw(st.integers(1, 30))):
        kind = draw(st.sampled_from(["create", "create", "create", "update", "update", "delete", "delete", "write", "write", "write", "lookup", "stale", "stale", "describe"]))
        op = {"op": kind, "b": (draw(st.integers(0, npool - 1)) + shift) % 4, "nonlive": draw(st.integers(0, 3)) == 0, "chk": draw(st.booleans())}
        if kind == "create":
            op.update(
                type=draw(st.sampled_from(TXT)),
                client=draw(st.sampled_from(TXT)),
                hostname=draw(st.sampled_from(TXT)),
                created_us=draw(gen.instants()),
                created_off=draw(gen.offsets()),
                name=draw(st.one_of(st.none(), st.sampled_from(TXT))),
                data=draw(st.one_of(st.none(), _data())),
            )
        elif kind == "update":
            fields = draw(st.dictionaries(st.sampled_from(["type_id", "client", "hostname", "name", "data"]), st.sampled_from(TXT), min_size=1, max_size=3))
            if "data" in fields:
                fields["data"] = draw(_data())
            op["fields"] = fields
        elif kind == "write":
            op["events"] = draw(st.lists(st.fixed_dictionaries({"slot": st.integers(0, 5), "dur_s": st.integers(0, 2), "data": st.sampled_from([{"k": "A"}, {}])}), min_size=1, max_size=3))
        ops.append(op)
    return {"backend": draw(st.sampled_from(stores.BACKENDS)), "ops": ops}


def known_key(case, v):
    return v.key


BASE_US = 1_650_000_000_000_000


def _dump(ds):
    import iso8601

    out = {}
    with sut("buckets()"):
        bs = ds.buckets()
    for bid, m in bs.items():
        with sut(f"reads of bucket {bid!r}"):
            evs = sorted(stores.ev_tuple(e)[1:] for e in ds[bid].get(limit=-1))
            md = ds[bid].metadata()
        for src in (m, md):
            try:
                cu = gen.to_us(iso8601.parse_date(src["created"])) if isinstance(src["created"], str) else gen.to_us(src["created"])
            except Exception as ex:
                raise Violation(f"bucket {bid!r}: 'created' unreadable: {src.get('created')!r}: {ex}")
            src["created"] = cu
        if json.dumps(m, sort_keys=True, default=str) != json.dumps(md, sort_keys=True, default=str):
            raise Violation(f"bucket {bid!r}: buckets() says {m!r}, metadata() says {md!r}")
        out[bid] = (json.loads(json.dumps(m, default=str)), evs)
        # what the store handed out is the caller's to scribble on: later listings must not show it
        for src in (m, md):
            if isinstance(src.get("data"), dict):
                src["data"]["__scribble"] = [1]
            src["hostname"] = "__scribbled"
    return out


def run_case(case):
    from aw_core.models import Event

    be = case["backend"]
    model = {}  # id -> {"meta": {...}, "events": [..]}
    stale = {}  # id -> handle obtained while live (possibly stale now)
    had_events_deleted = set()
    flags = {"recreate_after_events": 0, "stale_used": 0, "nonlive": 0}
    with stores.store(be) as ds:
        for step, op in enumerate(case["ops"]):
            bid = POOL[op["b"]]
            kind = op["op"]
            live = bid in model
            where = f"{be}: step {step} {kind}({bid!r})"
            if kind == "create":
                if live:
                    continue
                kw = dict(type=op["type"], client=op["client"], hostname=op["hostname"], created=gen.dt_at(op["created_us"], op["created_off"]))
                if op["name"] is not None:
                    kw["name"] = op["name"]
                if op["data"] is not None:
                    kw["data"] = json.loads(json.dumps(op["data"]))
                with sut(where):
                    h = ds.create_bucket(bid, **kw)
                model[bid] = {"meta": {"id": bid, "type": op["type"], "client": op["client"], "hostname": op["hostname"], "created": op["created_us"], "name": op["name"], "data": op["data"] or {}}, "events": []}
                stale[bid] = h
                if bid in had_events_deleted:
                    flags["recreate_after_events"] += 1
            elif kind == "update":
                if not live or op["nonlive"]:
                    target = bid if not live else "never-" + bid
                    flags["nonlive"] += 1
                    try:
                        ds.update_bucket(target, **json.loads(json.dumps(op["fields"])))
                    except ValueError:
                        pass
                    except Exception as ex:
                        raise Violation(f"{where}: updating a non-existent bucket raised {type(ex).__name__}: {ex} instead of ValueError")
                    else:
                        raise Violation(f"{where}: updating a non-existent bucket {target!r} did not raise")
                else:
                    with sut(where):
                        ds.update_bucket(bid, **json.loads(json.dumps(op["fields"])))
                    for k, v in op["fields"].items():
                        model[bid]["meta"]["type" if k == "type_id" else k] = v
            elif kind == "delete":
                if not live or op["nonlive"]:
                    target = bid if not live else "never-" + bid
                    flags["nonlive"] += 1
                    try:
                        ds.delete_bucket(target)
                    except ValueError:
                        pass
                    except Exception as ex:
                        raise Violation(f"{where}: deleting a non-existent bucket raised {type(ex).__name__}: {ex} instead of ValueError")
                    else:
                        raise Violation(f"{where}: deleting a non-existent bucket {target!r} did not raise")
                else:
                    with sut(where):
                        ds.delete_bucket(bid)
                    if model[bid]["events"]:
                        had_events_deleted.add(bid)
                    del model[bid]
            elif kind == "write":
                if not live:
                    continue
                with sut(where):
                    b = ds[bid]
                    for e in op["events"]:
                        b.insert(stores.mk_event(Event, {"us": BASE_US + e["slot"] * 10**6, "off": 0, "dur_us": e["dur_s"] * 10**6, "data": e["data"]}))
                for e in op["events"]:
                    model[bid]["events"].append((BASE_US + e["slot"] * 10**6, e["dur_s"] * 10**6, json.dumps(e["data"], sort_keys=True)))
            elif kind == "lookup":
                if not live or op["nonlive"]:
                    target = bid if not live else "never-" + bid
                    flags["nonlive"] += 1
                    try:
                        ds[target]
                    except KeyError:
                        pass
                    except Exception as ex:
                        raise Violation(f"{where}: looking up a non-existent bucket raised {type(ex).__name__} instead of KeyError")
                    else:
                        raise Violation(f"{where}: looking up a non-existent bucket {target!r} did not raise KeyError")
                else:
                    with sut(where):
                        stale[bid] = ds[bid]
            elif kind in ("stale", "describe"):
                h = stale.get(bid)
                if h is None:
                    continue
                if live:
                    with sut(where):
                        md = h.metadata()
                    if md.get("id") != bid:
                        raise Violation(f"{where}: metadata() through a kept handle describes {md.get('id')!r}")
                else:
                    flags["stale_used"] += 1
                    try:
                        h.metadata()
                    except ValueError:
                        pass
                    except Exception as ex:
                        raise Violation(f"{where}: metadata() of a deleted bucket raised {type(ex).__name__}: {ex} instead of ValueError")
                    else:
                        raise Violation(f"{where}: metadata() through a stale handle of a deleted bucket did not raise")
            # ---- compare with the model (reads force a commit on the SQLite store, so not after every step:
            #      a rejected operation must also leave *buffered* writes alone)
            if not op.get("chk", True) and step != len(case["ops"]) - 1:
                continue
            got = _dump(ds)
            if set(got) != set(model):
                raise Violation(f"{where}: listed buckets {sorted(got)} != model {sorted(model)}")
            for b_id, ent in model.items():
                m, evs = got[b_id]
                em = ent["meta"]
                for k in ("id", "type", "client", "hostname", "created", "data"):
                    if m.get(k) != em[k]:
                        raise Violation(f"{where}: bucket {b_id!r} field {k!r} reads {m.get(k)!r}, expected {em[k]!r}")
                if em["name"] is not None and m.get("name") != em["name"]:
                    raise Violation(f"{where}: bucket {b_id!r} name reads {m.get('name')!r}, expected {em['name']!r}")
                if evs != sorted(ent["events"]):
                    raise Violation(f"{where}: bucket {b_id!r} lists events {evs}, model has {sorted(ent['events'])}")
    classes = [be] + [k for k, v in flags.items() if v]
    return {"nontrivial": flags["recreate_after_events"] > 0 or flags["stale_used"] > 0, "classes": classes, "evals": len(case["ops"])}


# ---------------------------------------------------------------------------
# exhaustive small scope: every history up to a length over a small alphabet, on each backend

_C = dict(type="t", client="c", hostname="h", created_us=1_600_000_000_000_000, created_off=120)
ALPHABET = [
    dict(op="create", b=0, nonlive=False, chk=True, name=None, data=None, **_C),
    dict(op="create", b=0, nonlive=False, chk=False, name="nm", data={"k": {"n": [1]}}, **_C),
    dict(op="update", b=0, nonlive=False, chk=True, fields={"name": "x"}),
    dict(op="update", b=0, nonlive=False, chk=False, fields={"data": {"k": 1}, "hostname": "y"}),
    dict(op="delete", b=0, nonlive=False, chk=True),
    dict(op="delete", b=0, nonlive=True, chk=False),
    dict(op="write", b=0, nonlive=False, chk=False, events=[{"slot": 1, "dur_s": 1, "data": {"k": "A"}}, {"slot": 2, "dur_s": 0, "data": {}}]),
    dict(op="write", b=0, nonlive=False, chk=True, events=[{"slot": 0, "dur_s": 2, "data": {"k": "A"}}]),
    dict(op="lookup", b=0, nonlive=False, chk=True),
    dict(op="stale", b=0, nonlive=False, chk=True),
    dict(op="create", b=1, nonlive=False, chk=False, name=None, data=None, **_C),
]
EXHAUSTIVE_NOTE = f"extra phase 'small_scope': every history of length <= L over an alphabet of {len(ALPHABET)} operations (create plain / with name+data, update name / data+hostname, delete live / missing, write two / one events with and without a following check, lookup, stale describe, create a second bucket) on every backend (quick L=3: 1 463 histories x 3 backends; thorough L=4: 16 104 x 3)"


def extra_phases(tier, seed, jobs):
    big = [{"backend": be, "n": {"memory": 1500}.get(be, 10500 if tier == "quick" else 25000)} for be in stores.BACKENDS]
    return [
        ("small_scope", "phase_small_scope", [{"i": i, "n": jobs, "L": 3 if tier == "quick" else 4} for i in range(jobs)]),
        ("large_bucket", "phase_large_bucket", big),
    ]


def phase_large_bucket(task):
    """a bucket with many thousands of events is deleted (with a younger bucket next to it) and created again: it must come back empty"""
    from datetime import timedelta

    from aw_core.models import Event

    st_ = Stats()
    be, n = task["backend"], task["n"]
    case = {"kind_note": "large bucket", "backend": be, "n": n}
    try:
        with stores.store(be) as ds:
            with sut(f"{be}: large bucket lifecycle"):
                keep = stores.create_bucket(ds, "keep")
                keep.insert(Event(timestamp=gen.dt_utc(BASE_US), duration=1, data={"k": "keep"}))
                big = stores.create_bucket(ds, "big")
                big.insert([Event(timestamp=gen.dt_utc(BASE_US + i * 1000), duration=timedelta(milliseconds=1), data={"i": i}) for i in range(n)])
                if big.get_eventcount() != n:
                    raise Violation(f"{be}: {n} events inserted, {big.get_eventcount()} counted")
                ds.delete_bucket("big")
                if "big" in ds.buckets():
                    raise Violation(f"{be}: deleted bucket still listed")
                again = stores.create_bucket(ds, "big")
                left = again.get_eventcount()
                listed = len(again.get(limit=-1))
                if left or listed:
                    raise Violation(f"{be}: a bucket of {n} events was deleted and created again: it lists {listed} events (count {left}) instead of starting empty")
                if len(ds["keep"].get(limit=-1)) != 1:
                    raise Violation(f"{be}: deleting the large bucket changed another bucket")
    except Violation as v:
        st_.failure = {"kind": "large", "case": case, "message": v.msg}
        return st_
    st_.evals = n
    st_.classes[be] = 1
    st_.notes["events"] = n
    return st_


def replay_large(p):
    r = phase_large_bucket({"backend": p["backend"], "n": p["n"]})
    if r.failure:
        raise Violation(r.failure["message"])


def phase_small_scope(task):
    import itertools

    st_ = Stats()
    k = 0
    for L in range(1, task["L"] + 1):
        for combo in itertools.product(range(len(ALPHABET)), repeat=L):
            k += 1
            if k % task["n"] != task["i"]:
                continue
            ops = [json.loads(json.dumps(ALPHABET[j])) for j in combo]
            for be in stores.BACKENDS:
                case = {"backend": be, "ops": ops}
                try:
                    run_case(case)
                except Violation as v:
                    st_.failure = {"kind": "case", "case": case, "message": v.msg}
                    return st_
                st_.evals += 1
            st_.cases += 1
    st_.classes["histories_enumerated"] = st_.cases
    st_.notes["histories_enumerated"] = st_.cases
    return st_
