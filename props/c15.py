"""C15 — union_no_overlap keeps list one intact and only the uncovered parts of list two."""
from collections import Counter

from hypothesis import strategies as st

from vlib import intervals as iv
from vlib.runner import Stats, Violation, sut

ID = "C15"
DETERMINISTIC = True  # pure in-memory functions judged by a pure oracle: see runner (a failure seen once counts)
RULE = (
    "case = two time-sorted, internally non-overlapping layouts (0..8 each) on a ms grid; the second is independent or a perturbation of the first "
    "(containment both ways, one spanning several, shared edges, zero-length); one case in four has the whole layout stretched from ms to whole seconds, hours, half days or days (class 'spans_of_a_day_or_more'). Oracle on integers: output == multiset(list one, unchanged) + "
    "multiset{maximal positive-length sub-intervals of each e2 not covered by list one, with e2's data}; no positive pairwise overlap; inputs deep-equal "
    "before/after. Zero-length list-two pieces are ignored. Non-trivial = an event of one list positively overlaps >= 2 events of the other."
)
ASSUMPTIONS = ["millisecond grid", "inputs are sorted by time and internally non-overlapping (the property's precondition)", "zero-length second-list pieces in the output are neither required nor forbidden", "a second-list piece may be cut at the instant of a zero-length first-list event (that instant is covered by list one); pieces are compared after cutting at all list-one edges"]


def budget(tier):
    return 1500 if tier == "quick" else 40000


@st.composite
def strategy(draw, tier="quick"):
    a = draw(iv.nonoverlap_layout(max_n=draw(st.sampled_from([8, 8, 8, 16, 24])), alphabet=("a", "b"), with_ids=True))
    if draw(st.booleans()):
        b = draw(iv.perturbed(a, alphabet=("x", "y")))
    else:
        b = draw(iv.nonoverlap_layout(max_n=8, alphabet=("x", "y")))
    if draw(st.integers(0, 5)) == 0:
        a, b = [dict(e, l="x") for e in b], [dict(e, l="a") for e in a]
        for i, e in enumerate(a):
            e["id"] = i + 1
        for e in b:
            e.pop("id", None)
    # the same layout in another unit: one in four cases is stretched to whole seconds, hours, half days or days, so that
    # pieces reach and cross the fields a timedelta is made of (days / seconds / microseconds)
    unit = draw(st.sampled_from([1] * 9 + [1000, 3_600_000, 43_200_000, 86_400_000]))
    if unit != 1:
        a, b = ([dict(e, s=e["s"] * unit, d=e["d"] * unit) for e in lst] for lst in (a, b))
    return {"a": a, "b": b}


def known_key(case, v):
    return v.key


def run_case(case):
    from aw_core.models import Event
    from aw_transform import union_no_overlap

    a, b = case["a"], case["b"]
    ea, eb = iv.to_events(a, Event), iv.to_events(b, Event)
    sa, sb = iv.snapshot(ea), iv.snapshot(eb)
    with sut("union_no_overlap"):
        out = union_no_overlap(ea, eb)
    if iv.snapshot(ea) != sa or iv.snapshot(eb) != sb:
        raise Violation("union_no_overlap modified its inputs")
    ivs_a = [(e["s"], e["s"] + e["d"]) for e in a]
    exp1 = Counter((e["s"], e["s"] + e["d"], e["l"], e.get("id")) for e in a)
    exp2 = Counter()
    for e in b:
        for s, t in iv.subtract((e["s"], e["s"] + e["d"]), ivs_a):
            exp2[(s, t, e["l"], None)] += 1
    labels_a = {e["l"] for e in a}
    # a zero-length list-one event covers one point: a list-two piece may legitimately be cut there.
    # Normalise expectation and output by cutting every piece at every list-one edge strictly inside it.
    cuts = sorted({p for s, t in ivs_a for p in (s, t)})

    def norm(counter):
        out_ = Counter()
        for (s, t, l, i), n in counter.items():
            pts = [s] + [c for c in cuts if s < c < t] + [t]
            for x, y in zip(pts, pts[1:]):
                out_[(x, y, l, i)] += n
        return out_

    exp2 = norm(exp2)
    got1, got2 = Counter(), Counter()
    for o in out:
        try:
            s, t = iv.from_event(o)
        except ValueError as ex:
            raise Violation(f"output off the ms grid: {ex}")
        if t < s:
            raise Violation(f"negative-length output ({s},{t})")
        l = o.data.get("l")
        if l in labels_a:
            got1[(s, t, l, o.id)] += 1
        elif t > s:
            got2[(s, t, l, o.id)] += 1
    desc = f"union_no_overlap(one={[(e['s'], e['s'] + e['d'], e['l']) for e in a]}, two={[(e['s'], e['s'] + e['d'], e['l']) for e in b]})"
    if got1 != exp1:
        raise Violation(f"{desc}: list-one events not returned unchanged: missing {list((exp1 - got1).elements())}, unexpected {list((got1 - exp1).elements())}")
    raw2 = got2
    got2 = norm(got2)
    if got2 != exp2:
        missing, extra = list((exp2 - got2).elements()), list((got2 - exp2).elements())
        key = None
        raise Violation(f"{desc}: list-two pieces wrong: missing {missing}, unexpected {extra}", key=key)
    allp = [(s, t) for (s, t, _, _), n in (got1 + raw2).items() for _ in range(n) if t > s]
    allp.sort()
    for x, y in zip(allp, allp[1:]):
        if y[0] < x[1]:
            raise Violation(f"{desc}: returned events overlap: {x}, {y}")
    multi = False
    for x, y in ((a, b), (b, a)):
        for e in x:
            if sum(1 for f in y if iv.positive_overlap((e["s"], e["s"] + e["d"]), (f["s"], f["s"] + f["d"]))) >= 2:
                multi = True
    classes = []
    if any(e["d"] >= 86_400_000 for e in case["a"] + case["b"]):
        classes.append("spans_of_a_day_or_more")
    if multi:
        classes.append("one_meets_many")
    if any(e["d"] == 0 for e in a + b):
        classes.append("zero_length")
    if any(ia[0] <= e["s"] and e["s"] + e["d"] <= ia[1] and e["d"] > 0 for e in b for ia in ivs_a):
        classes.append("two_inside_one")
    if any(e["s"] <= ia[0] and ia[1] <= e["s"] + e["d"] and ia[1] > ia[0] for e in b for ia in ivs_a):
        classes.append("one_inside_two")
    return {"nontrivial": multi, "classes": classes, "evals": 1}


# ---------------------------------------------------------------------------
# exhaustive small scope

EXHAUSTIVE_NOTE = "extra phase 'small_scope': union_no_overlap on every pair of sorted, internally non-overlapping lists of <= N events with integer ms edges in [0, G] (quick G=4,N=3: 87 616 pairs; thorough G=5,N=4: 3 598 609 pairs)"


def extra_phases(tier, seed, jobs):
    g, n = (4, 3) if tier == "quick" else (5, 4)
    large = [{"n1": n1, "shape": sh} for n1 in ((1200,) if tier == "quick" else (1200, 5000)) for sh in ("one_spans_all", "one_spans_all_rev", "alternating")]
    return [
        ("small_scope", "phase_small_scope", [{"i": i, "n": jobs, "grid": g, "max_n": n} for i in range(jobs)]),
        ("large", "phase_large", large),
    ]


def _large_case(task):
    n1 = task["n1"]
    tiny = [{"s": 10 * k, "d": 4, "l": "ab"[k % 2], "id": k + 1} for k in range(n1)]
    if task["shape"] == "one_spans_all":  # one list-two event (a day of AFK) across a thousand list-one events
        return {"a": tiny, "b": [{"s": 2, "d": 10 * n1 + 5, "l": "x"}]}
    if task["shape"] == "one_spans_all_rev":
        return {"a": [{"s": 2, "d": 10 * n1 + 5, "l": "a", "id": 1}], "b": [dict(e, l="xy"[k % 2]) for k, e in enumerate({k2: v for k2, v in t.items() if k2 != "id"} for t in tiny)]}
    return {"a": tiny, "b": [{"s": 10 * k + 3, "d": 5, "l": "xy"[k % 2]} for k in range(n1)]}


def phase_large(task):
    st_ = Stats()
    case = _large_case(task)
    try:
        run_case(case)
    except Violation as v:
        st_.failure = {"kind": "large", "case": task, "message": v.msg[:1500]}
        return st_
    st_.evals = 1
    st_.classes[task["shape"]] = 1
    return st_


def replay_large(task):
    run_case(_large_case(task))


def phase_small_scope(task):
    st_ = Stats()
    lay = iv.all_layouts(task["grid"], task["max_n"])
    for a in iv.shard(lay, task["i"], task["n"]):
        ea = [{"s": s, "d": e - s, "l": "ab"[k % 2], "id": k + 1} for k, (s, e) in enumerate(a)]
        for b in lay:
            case = {"a": ea, "b": [{"s": s, "d": e - s, "l": "xy"[k % 2]} for k, (s, e) in enumerate(b)]}
            try:
                run_case(case)
            except Violation as v:
                st_.failure = {"kind": "case", "case": case, "message": v.msg}
                return st_
            st_.evals += 1
    st_.classes["pairs_enumerated"] = st_.evals
    st_.notes["pairs_enumerated"] = st_.evals
    return st_
