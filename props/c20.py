"""C20 — effective configuration is the defaults overlaid by the user's file."""
import copy
import hashlib
import os
import shutil
import tomllib

from hypothesis import strategies as st

from vlib import env
from vlib.runner import Violation, sut

ID = "C20"
RULE = (
    "case = default TOML tree (tables nested up to 3 deep over a small key pool; scalar ints/floats/bools/strings with #, =, quotes, brackets, non-ASCII; "
    "one-line arrays; with an existing user file also multi-line strings whose lines look like comments, headers or assignments) rendered by the harness's own writer with comment and blank lines, x a user tree derived from it (each key dropped/kept/changed incl. "
    "scalar type changes (one user tree in eight restates the whole default tree with some values in another TOML type that compares equal in Python, true / 1 / 1.0) and, rarely, a table replaced by a plain value or a plain value by a (possibly empty) table, plus user-only keys and tables) x file exists | file absent; table sections may be written in any order (e.g. [server.tls], [ui], [server]) and leaf tables as one-line inline tables; the user may edit the file between two loads. Both texts are first checked with tomllib against the generated trees. "
    "Oracle: reference overlay on plain dicts (user wins at leaves, recurse on tables, keep both sides' private keys); file bytes unchanged when it existed; when absent: "
    "first load == defaults and creates a file, two further loads == defaults with file bytes unchanged, created file parses as TOML; the user may then edit the generated file and the next load must overlay it. One case in six runs with XDG_CONFIG_HOME set but empty (the file then lives under ~/.config). "
    "Non-trivial = overlap at depth >= 2 with both a changed and an untouched sibling, or the absent-file path with a nested table."
)
ASSUMPTIONS = [
    "no arrays of tables; multi-line strings only when the user's file exists (the generated-file clause is limited to one-line values)",
    "tomllib (stdlib) is the second TOML reader validating the harness's writer",
    "tomlkit's parser is trusted: documents that tomlkit itself refuses to parse (some valid out-of-order table headers) are set aside and counted",
    "the config directory is redirected with XDG_CONFIG_HOME to a per-process scratch directory",
]

KEYS = ["a", "b", "c", "port", "host", "name_1", "x-y", "enabled"]
TABLES = ["server", "client", "t", "u"]
STRS = ["", "x", "hello world", "a#b", "a = b", 'q"uote', "[x]", "back\\slash", "ünï", "日本", "#lead", "tab\there", "'single'", "a,b", "{}",
        # one-line TOML strings may contain these separators raw; str.splitlines() would break the line there
        "{app}\u2028[{title}]", "a\x85[b]", "x\u2029y", "\x0b[v]"[1:], "fs\x1c"[:2]]


# multi-line strings (only with an existing user file: the generated-file clause is limited to one-line values). Their lines may look
# like comments, table headers or assignments; they are none of these
ML = ["line one\n# not a comment\nline three", "\n#x", "a\n   # indented\nb\n", "x\n[fake.table]\ny = 1", "two\n\nblank", "{app}\n  #{title}"]


def budget(tier):
    return 400 if tier == "quick" else 10000


def _scalar():
    return st.one_of(
        st.integers(-5, 5),
        st.integers(-(2**62), 2**62),
        st.sampled_from([0.5, -1.25, 3.0, 1e10, 1e-7, 6.02e23]),
        st.booleans(),
        st.sampled_from(STRS),
        st.sampled_from(STRS + ML),
        st.lists(st.one_of(st.integers(-3, 3), st.sampled_from(STRS)), max_size=3),
    )


@st.composite
def _tree(draw, depth):
    t = {}
    for k in draw(st.lists(st.sampled_from(KEYS), max_size=4, unique=True)):
        t[k] = draw(_scalar())
    if depth > 0:
        for k in draw(st.lists(st.sampled_from(TABLES), max_size=2, unique=True)):
            t[k] = draw(_tree(depth - 1))
    return t


@st.composite
def _derive(draw, base, depth):
    """User tree derived from a default tree."""
    u = {}
    for k, v in base.items():
        act = draw(st.integers(0, 3))
        conflict = draw(st.integers(0, 11)) == 0  # the user turns a table into a plain value, or a plain value into a table
        if isinstance(v, dict):
            if act == 0:
                continue
            u[k] = draw(_scalar()) if conflict else draw(_derive(v, depth - 1))
        elif conflict and depth > 0:
            u[k] = draw(st.one_of(st.just({}), _tree(0)))
        else:
            if act == 0:
                continue  # dropped: default applies
            elif act == 1:
                u[k] = copy.deepcopy(v)  # kept
            else:
                u[k] = draw(_scalar())  # changed (maybe type change)
    for k in draw(st.lists(st.sampled_from(KEYS + ["only_user"]), max_size=2, unique=True)):
        if k not in base:
            u[k] = draw(_scalar())
    if depth > 0:
        for k in draw(st.lists(st.sampled_from(TABLES + ["usertable"]), max_size=1, unique=True)):
            if k not in base:
                u[k] = draw(_tree(depth - 1))
    return u


_TWINS = {("bool", True): [1], ("bool", False): [0], ("int", 1): [True, 1.0], ("int", 0): [False, 0.0], ("int", 3): [3.0], ("float", 3.0): [3], ("int", -5): [-5.0], ("int", 2): [2.0]}


@st.composite
def _twin(draw, base):
    """The same tree with some values replaced by another TOML type that compares equal in Python (true / 1 / 1.0): a user who
    sets such a value has set it - the effective value has the user's type."""
    u = {}
    for k, v in base.items():
        if isinstance(v, dict):
            u[k] = draw(_twin(v))
        else:
            alts = _TWINS.get((type(v).__name__, v), []) if isinstance(v, (bool, int, float)) else []
            u[k] = draw(st.sampled_from(alts)) if alts and draw(st.booleans()) else copy.deepcopy(v)
    return u


def _one_line(t):
    if isinstance(t, dict):
        return {k: _one_line(v) for k, v in t.items()}
    if isinstance(t, str):
        return t.replace("\n", " ")
    return t


@st.composite
def strategy(draw, tier="quick"):
    d = draw(_tree(3))
    u = draw(_derive(d, 3))
    if draw(st.integers(0, 7)) == 0:
        u = draw(_twin(d))  # the user's file restates every default, some of them in another type
    exists = draw(st.sampled_from([True, True, False]))
    if not exists:
        d, u = _one_line(d), _one_line(u)
    return {
        "default": d,
        "user": u,
        "exists": exists,
        "comments": draw(st.lists(st.integers(0, 40), max_size=4)),
        "ucomments": draw(st.lists(st.integers(0, 40), max_size=3)),
        "user2": draw(st.one_of(st.none(), _derive(d, 3))),  # the user edits the file between two loads
        "order": draw(st.one_of(st.just([]), st.lists(st.integers(0, 5), min_size=1, max_size=6))),
        "uorder": draw(st.one_of(st.just([]), st.lists(st.integers(0, 5), min_size=1, max_size=6))),
        "inline": draw(st.sampled_from([0, 0, 1, 2, 3, 5, 255])),
        "uinline": draw(st.sampled_from([0, 0, 1, 2, 3, 5, 255])),
        "xdg_empty": draw(st.integers(0, 5)) == 0,
    }


# ---------------------------------------------------------------------------
# the harness's own TOML writer


def _s(v):
    if "\n" in v:  # multi-line basic string; the newline right after the opening quotes is not part of the value
        body = "".join("\\\\" if ch == "\\" else '\\"' if ch == '"' else ch if ch == "\n" or (ord(ch) >= 32 and ord(ch) != 127) else "\\u%04x" % ord(ch) for ch in v)
        return '"""\n' + body + '"""'
    out = '"'
    for ch in v:
        if ch == '"':
            out += '\\"'
        elif ch == "\\":
            out += "\\\\"
        elif ch == "\t":
            out += "\\t"
        elif ord(ch) < 32 or ord(ch) == 127:
            out += "\\u%04x" % ord(ch)
        else:
            out += ch
    return out + '"'


def _v(v):
    if isinstance(v, bool):
        return "true" if v else "false"
    if isinstance(v, int):
        return str(v)
    if isinstance(v, float):
        r = repr(v)
        return r
    if isinstance(v, str):
        return _s(v)
    if isinstance(v, list):
        return "[" + ", ".join(_v(x) for x in v) + "]"
    raise TypeError(v)


def render(tree, comments=(), order=(), inline=0):
    """`order`: ints permuting the [table] sections (any order of headers is valid TOML, e.g. [server.tls], [ui], [server]);
    `inline`: bit mask - the i-th leaf table (no sub-tables) is written as an inline table `name = { k = v }` if bit i is set."""
    sections = []  # (path, [scalar lines])
    leaf_no = [0]

    def emit(t, path):
        mine = []
        sections.append((path, mine))
        for k, v in t.items():
            if not isinstance(v, dict):
                mine.append(f"{k} = {_v(v)}")
        for k, v in t.items():
            if isinstance(v, dict):
                is_leaf = not any(isinstance(x, dict) for x in v.values())
                if is_leaf:
                    i = leaf_no[0]
                    leaf_no[0] += 1
                    if (inline >> i) & 1 and not any(isinstance(x, str) and "\n" in x for x in v.values()):
                        mine.append(f"{k} = {{ " + ", ".join(f"{kk} = {_v(vv)}" for kk, vv in v.items()) + " }" if v else f"{k} = {{}}")
                        continue
                emit(v, path + [k])

    emit(tree, [])
    root, rest = sections[0], sections[1:]
    if order and len(rest) > 1:
        keyed = sorted(range(len(rest)), key=lambda i: (order[i % len(order)], i))
        rest = [rest[i] for i in keyed]
    lines = list(root[1])
    for path, mine in rest:
        lines.append("")
        lines.append("[" + ".".join(path) + "]")
        lines.extend(mine)
    for i, c in enumerate(comments):
        pos = c % (len(lines) + 1)
        lines.insert(pos, ["# a comment", "", "# key = 1", "   ", "#"][(c + i) % 5])
    return "\n".join(lines) + "\n"


def overlay(d, u):
    out = copy.deepcopy(d)
    for k, v in u.items():
        if k in out and isinstance(out[k], dict) and isinstance(v, dict):
            out[k] = overlay(out[k], v)
        else:
            out[k] = copy.deepcopy(v)
    return out


def _unwrap(x):
    if hasattr(x, "unwrap"):
        x = x.unwrap()
    if isinstance(x, dict):
        return {str(k): _unwrap(v) for k, v in x.items()}
    if isinstance(x, list):
        return [_unwrap(v) for v in x]
    if isinstance(x, bool):
        return bool(x)
    if isinstance(x, int):
        return int(x)
    if isinstance(x, float):
        return float(x)
    if isinstance(x, str):
        return str(x)
    return x


def _typed(x):
    """Equality that distinguishes 1 / 1.0 / True."""
    if isinstance(x, dict):
        return {k: _typed(v) for k, v in x.items()}
    if isinstance(x, list):
        return [_typed(v) for v in x]
    return (type(x).__name__, x)


_n = 0


def known_key(case, v):
    return v.key


def run_case(case):
    global _n
    from aw_core.config import load_config_toml

    d, u = case["default"], case["user"]
    dtext = render(d, case["comments"], case.get("order", ()), case.get("inline", 0))
    utext = render(u, case["ucomments"], case.get("uorder", ()), case.get("uinline", 0))
    if _typed(tomllib.loads(dtext)) != _typed(d) or _typed(tomllib.loads(utext)) != _typed(u):
        raise RuntimeError("harness TOML writer disagrees with tomllib")
    # tomlkit (the library under the loader) rejects some valid orderings of table headers that tomllib accepts,
    # e.g. [s.s.c] [s.s] [s] [s.s.t]: that is tomlkit's parser, not the configuration loader -> such documents are set aside
    import tomlkit

    for text in (dtext, utext):
        try:
            tomlkit.parse(text)
        except Exception:
            return {"nontrivial": False, "classes": ["set_aside_tomlkit_rejects_valid_toml"], "evals": 0}
    _n += 1
    app = f"app{os.getpid()}x{_n}"
    xdg_saved = os.environ["XDG_CONFIG_HOME"]
    cwd_saved = os.getcwd()
    if case.get("xdg_empty"):
        # XDG_CONFIG_HOME set but empty counts as unset: the configuration lives under ~/.config (HOME is this process's scratch directory)
        os.environ["XDG_CONFIG_HOME"] = ""
        cdir = os.path.join(os.environ["HOME"], ".config", "activitywatch", app)
        os.chdir(env.fresh_dir())  # whatever a loader might write relative to the working directory stays in scratch
    else:
        cdir = os.path.join(xdg_saved, "activitywatch", app)
    path = os.path.join(cdir, app + ".toml")
    try:
        if case["exists"]:
            os.makedirs(cdir, exist_ok=True)
            with open(path, "w") as f:
                f.write(utext)
            before = hashlib.sha256(open(path, "rb").read()).hexdigest()
            for i in range(2):
                with sut("load_config_toml"):
                    got = _unwrap(load_config_toml(app, dtext))
                exp = overlay(d, u)
                if _typed(got) != _typed(exp):
                    raise Violation(f"load_config_toml (call {i + 1}) with default {d!r} and user file {u!r} gave {got!r}, expected overlay {exp!r}")
                if hashlib.sha256(open(path, "rb").read()).hexdigest() != before:
                    raise Violation("load_config_toml altered the existing user file")
            if case.get("user2") is not None:
                u2 = case["user2"]
                u2text = render(u2, case["ucomments"], (), 0)
                if _typed(tomllib.loads(u2text)) != _typed(u2):
                    raise RuntimeError("harness TOML writer disagrees with tomllib")
                with open(path, "w") as f:
                    f.write(u2text)
                with sut("load_config_toml (after the user edited the file)"):
                    got = _unwrap(load_config_toml(app, dtext))
                exp = overlay(d, u2)
                if _typed(got) != _typed(exp):
                    raise Violation(f"after the user file changed from {u!r} to {u2!r}, load_config_toml with default {d!r} gave {got!r}, expected {exp!r}")
        else:
            with sut("load_config_toml (no file)"):
                got = _unwrap(load_config_toml(app, dtext))
            if _typed(got) != _typed(d):
                raise Violation(f"first load without a file gave {got!r}, expected defaults {d!r}")
            if not os.path.isfile(path):
                raise Violation("no config file was written")
            raw = open(path, "rb").read()
            try:
                tomllib.loads(raw.decode())
            except Exception as ex:
                raise Violation(f"the written config file is not valid TOML: {ex}; default text {dtext!r}; written {raw!r}")
            for i in range(2):
                with sut("load_config_toml (written file)"):
                    got = _unwrap(load_config_toml(app, dtext))
                if _typed(got) != _typed(d):
                    raise Violation(f"load {i + 2} after the file was written gave {got!r}, expected defaults {d!r}; written file {raw!r}")
                if open(path, "rb").read() != raw:
                    raise Violation("a later load rewrote the config file")
            if case.get("user2") is not None:
                # the user now edits the generated file (with an editor: this process is not told) and the configuration is loaded again
                u2 = _one_line(case["user2"])
                u2text = render(u2, case["ucomments"], (), 0)
                if _typed(tomllib.loads(u2text)) != _typed(u2):
                    raise RuntimeError("harness TOML writer disagrees with tomllib")
                try:
                    tomlkit.parse(u2text)
                except Exception:
                    u2 = None
                if u2 is not None:
                    with open(path, "w") as f:
                        f.write(u2text)
                    with sut("load_config_toml (after the user edited the generated file)"):
                        got = _unwrap(load_config_toml(app, dtext))
                    exp = overlay(d, u2)
                    if _typed(got) != _typed(exp):
                        raise Violation(f"after the user edited the generated file to {u2!r}, load_config_toml with default {d!r} gave {got!r}, expected {exp!r}")
    finally:
        os.environ["XDG_CONFIG_HOME"] = xdg_saved
        if case.get("xdg_empty"):
            os.chdir(cwd_saved)
        shutil.rmtree(cdir, ignore_errors=True)

    def deep_overlap(dd, uu, depth):
        if depth >= 2:
            ch = [k for k in dd if not isinstance(dd[k], dict) and k in uu and _typed(uu[k]) != _typed(dd[k])]
            un = [k for k in dd if not isinstance(dd[k], dict) and k not in uu]
            if ch and un:
                return True
        return any(isinstance(dd[k], dict) and isinstance(uu.get(k), dict) and deep_overlap(dd[k], uu[k], depth + 1) for k in dd)

    nested = any(isinstance(v, dict) and v for v in d.values())
    nt = (case["exists"] and deep_overlap(d, u, 1)) or (not case["exists"] and nested)
    classes = ["file_exists" if case["exists"] else "file_absent"]
    if nested:
        classes.append("nested_default")
    if any(isinstance(v, dict) for v in u.values()):
        classes.append("nested_user")
    if case.get("user2") is not None and case["exists"]:
        classes.append("file_edited_between_loads")
    if case.get("order") or case.get("uorder"):
        classes.append("sections_out_of_order")
    if case.get("inline") or case.get("uinline"):
        classes.append("inline_tables")
    if case.get("xdg_empty"):
        classes.append("xdg_config_home_empty")
    if case.get("user2") is not None and not case["exists"]:
        classes.append("generated_file_edited_then_loaded")
    return {"nontrivial": nt, "classes": classes, "evals": 3}
