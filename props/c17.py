"""C17 — any query text either parses or is rejected with a query error, and terminates."""
import json
import os
import signal
import subprocess
import sys
import traceback
from datetime import timedelta

from hypothesis import strategies as st

from vlib import env, gen, qlang
from vlib.runner import Inconclusive, Stats, Violation, case_hash

ID = "C17"
RULE = (
    "inputs from four sources: (a) atheris/libFuzzer coverage-guided bytes -> UTF-8 -> query(), instrumenting aw_query, token dictionary, from an empty corpus and "
    "from corpus/c17 (the test-suite's queries); (b) Hypothesis text over the token alphabet ()[]{},:;='\"\\ letters digits whitespace unicode digits; (c) valid programs "
    "from the C11 grammar corrupted by 1..3 edits (delete/duplicate/swap/insert a character, drop or double a bracket or quote, blank an argument, strip a "
    "separator); (e) deeply nested programs (lists, dicts, calls nested 1..1500 deep, balanced or off by one bracket) and integer literals of up to 7500 digits; (d) typed corruptions with a known expected class (undefined variable, unknown function, too many/few arguments -> interpret error; wrong top-level "
    "argument type, unknown bucket -> function error; unterminated string, empty right-hand side, assignment to a non-variable -> parse error). Oracle: under a 10 s "
    "alarm the outcome is a value or a QueryException; any other exception whose traceback does not pass through a q2_* built-in body, aw_transform or aw_datastore "
    "escaped from parsing or name/arity/type resolution -> violation (failures below a built-in are ill-typed *contents*, counted as excluded); for (d) the class "
    "must be the expected one; the typed corruptions are additionally ENUMERATED completely (every built-in x argument position x wrong literal x arity error), every identifier-like string constant found in the query modules is tried as a variable bound to the name of a non-existent bucket before that bucket is asked for, and nesting depths 880..1080 (the band in which the interpreter stack runs out) are swept with a literal and with a call innermost. Non-trivial = the input has '=' with a non-empty right side (reaches a token scanner) and is not accepted by the reference parser."
)
ASSUMPTIONS = [
    "inputs are at most 128 characters for the fuzzer, ~60 for random text, up to ~15 000 characters for the deep-nesting source (the scanners are quadratic in the nesting depth, so far longer inputs can legitimately need more than the alarm); termination means 'returns within 10 s' (a miss is re-tried once with 60 s before it counts, so that a loaded machine cannot produce a verdict)",
    "exceptions raised below a built-in's own body (ill-typed list contents, bad regex) are outside the property",
    "each libFuzzer shard is bounded by -runs and by a wall-clock cap (-max_total_time; hitting it only ends the search, it is never a verdict); a shard stops at the first non-terminating input. libFuzzer campaigns are only approximately reproducible from a seed; the saved input is the reproducible unit and is re-confirmed by plain replay before it is reported",
]
BASE_US = 1_650_000_000_000_000
BUCKET = "aw-watcher-window_host1"
TIMEOUT_S = 10


def budget(tier):
    return 1500 if tier == "quick" else 30000


# ---------------------------------------------------------------------------
# running one input


class _Timeout(BaseException):
    pass


def _alarm(signum, frame):
    raise _Timeout()


_DS = {"ds": None, "n": 0}


def get_ds():
    """A small memory datastore, rebuilt every 500 inputs (queries cannot write; C12)."""
    if _DS["ds"] is None or _DS["n"] >= 500:
        from aw_core.models import Event
        from aw_datastore import Datastore
        from aw_datastore.storages import MemoryStorage

        ds = Datastore(MemoryStorage, testing=True)
        b = ds.create_bucket(BUCKET, type="t", client="c", hostname="host1", created=gen.dt_utc(BASE_US))
        for i, d in enumerate([{"app": "Firefox", "title": "GitHub", "url": "http://www.github.com/a"}, {"app": "vim", "title": "(2) x"}, {"status": "afk"}]):
            b.insert(Event(timestamp=gen.dt_utc(BASE_US + i * 10**6), duration=timedelta(seconds=1), data=d))
        _DS["ds"], _DS["n"] = ds, 0
    _DS["n"] += 1
    return _DS["ds"]


def classify_exception(ex):
    """('violation'|'excluded', where) for a non-query exception."""
    frames = traceback.extract_tb(ex.__traceback__)
    repo = env.REPO + os.sep
    inner = None
    below_builtin = False
    for fr in frames:
        fn = fr.filename
        if not fn.startswith(repo):
            continue
        rel = fn[len(repo) :]
        if rel.startswith("aw_transform") or rel.startswith("aw_datastore") or rel.startswith("aw_core"):
            below_builtin = True
        if rel.startswith("aw_query"):
            inner = (rel, fr.name, fr.lineno)
            if rel.endswith("functions.py") and fr.name.startswith("q2_"):
                below_builtin = True
    where = f"{inner[0]}:{inner[1]}" if inner else "outside aw_query"
    if inner is None:
        return "excluded", where
    return ("excluded" if below_builtin else "violation"), where


def run_text(text, timeout=None):
    """-> (status, detail): status in value | query_error:<Class> | excluded | violation | timeout"""
    from aw_query import query
    from aw_query.exceptions import QueryException

    ds = get_ds()
    start, end = gen.dt_utc(BASE_US - 10**9), gen.dt_utc(BASE_US + 10**9)
    old = signal.signal(signal.SIGALRM, _alarm)
    signal.alarm(timeout or TIMEOUT_S)
    try:
        try:
            query("q", text, start, end, ds)
            return "value", ""
        finally:
            signal.alarm(0)
    except QueryException as ex:
        # the family the error belongs to (a subclass of the parse error is still a parse error)
        from aw_query.exceptions import QueryFunctionException, QueryInterpretException, QueryParseException

        fam = next((c.__name__ for c in (QueryParseException, QueryInterpretException, QueryFunctionException) if isinstance(ex, c)), "QueryException")
        return "query_error:" + fam, str(ex)[:200]
    except _Timeout:
        return "timeout", ""
    except RecursionError as ex:
        st_, where = classify_exception(ex)
        return st_, f"RecursionError at {where}"
    except Exception as ex:
        st_, where = classify_exception(ex)
        return st_, f"{type(ex).__name__} at {where}: {str(ex)[:120]}"
    finally:
        signal.signal(signal.SIGALRM, old)


def is_nontrivial(text):
    if "=" not in text:
        return False
    ok = False
    for stmt in text.split(";"):
        i = stmt.find("=")
        if i != -1 and stmt[i + 1 :].strip():
            ok = True
    if not ok:
        return False
    try:
        qlang.reference_parse(text)
        return False
    except qlang.RefParseError:
        return True
    except Exception:
        return True


def bucket_of(detail):
    return detail.split(":")[0] + ":" + detail.split(" at ")[-1].split(": ")[0] if " at " in detail else detail


def judge(text, expect=None):
    status, detail = run_text(text)
    if status == "violation":
        raise Violation(f"query {text!r}: {detail} escaped (not a QueryException)", key=bucket_of(detail))
    if status == "timeout":
        # a busy machine can make a slow-but-terminating input miss the alarm: confirm with six times the allowance
        s2, _ = run_text(text, timeout=6 * TIMEOUT_S)
        if s2 == "timeout":
            raise Violation(f"query {text[:300]!r}{'...' if len(text) > 300 else ''} ({len(text)} characters) did not terminate within {TIMEOUT_S} s, nor within {6 * TIMEOUT_S} s when tried again", key="timeout")
        status = s2
    if expect is not None:
        if status != "query_error:" + expect:
            raise Violation(f"query {text!r}: expected {expect}, got {status} {detail}", key="wrong_class:" + expect)
    return status


# ---------------------------------------------------------------------------
# Hypothesis sources (b) (c) (d)

ALPHA = list("()[]{},:;='\"\\ \n\tabcxyzRETURN_0123456789") + ["²", "٣", "𝟜", "é", "nop", "RETURN", "query_bucket", "=", "=", "(", ")"]


@st.composite
def strategy(draw, tier="quick"):
    kind = draw(st.sampled_from(["text", "text", "corrupt", "corrupt", "corrupt", "typed", "text", "text", "corrupt", "corrupt", "corrupt", "typed", "deep"]))
    if kind == "deep":
        # deeply nested (mostly valid) programs: the parser and interpreter are recursive
        return {
            "kind": "deep",
            "open": draw(st.sampled_from(["[", "nop(", '{"a":', "concat([],", "[1,", "digits", "digits"])),
            "n": draw(st.one_of(st.integers(1, 60), st.integers(60, 1500))),
            "unbalanced": draw(st.sampled_from([0, 0, 0, 1, -1])),
            "via_var": draw(st.booleans()),
        }
    if kind == "text":
        parts = draw(st.lists(st.sampled_from(ALPHA), max_size=40))
        text = "".join(parts)
        if draw(st.booleans()):
            text = draw(st.sampled_from(["RETURN=", "a=", "RETURN = nop(", "RETURN=[", "RETURN={", "a=1;RETURN="])) + text
        return {"kind": "text", "text": text}
    if kind == "corrupt":
        prog = draw(qlang.programs([BUCKET], max_stmts=3))
        ws = draw(st.lists(st.integers(0, 4), min_size=1, max_size=4))
        edits = draw(
            st.lists(
                st.fixed_dictionaries(
                    {
                        "op": st.sampled_from(["del", "dup", "swap", "ins", "dropbr", "dblbr", "blankarg", "stripsep", "trunc"]),
                        "pos": st.integers(0, 10**6),
                        "ch": st.sampled_from(list("()[]{},:;='\" \\") + ["²", "x", "1"]),
                    }
                ),
                min_size=1,
                max_size=3,
            )
        )
        return {"kind": "corrupt", "prog": prog, "ws": ws, "edits": edits}
    which = draw(
        st.sampled_from(
            ["undefined_var", "unknown_function", "too_many", "too_few", "wrong_type", "unknown_bucket", "unterminated_string", "empty_rhs", "assign_nonvar", "no_return"]
        )
    )
    return {"kind": "typed", "which": which, "f": draw(st.sampled_from(TYPED_FUNCS)), "n": draw(st.integers(0, 11)), "ws": draw(st.sampled_from(["", " ", "\n"])), "q": draw(st.sampled_from(["'", '"']))}


# built-in -> (arity, index and literal of a type-checked positional parameter)
ARITY = {
    "find_bucket": 2,
    "query_bucket": 1,
    "query_bucket_eventcount": 1,
    "filter_keyvals": 3,
    "exclude_keyvals": 3,
    "filter_keyvals_regex": 3,
    "filter_period_intersect": 2,
    "period_union": 2,
    "limit_events": 2,
    "merge_events_by_keys": 2,
    "chunk_events_by_key": 2,
    "sort_by_timestamp": 1,
    "sort_by_duration": 1,
    "sum_durations": 1,
    "concat": 2,
    "union_no_overlap": 2,
    "flood": 1,
    "split_url_events": 1,
    "simplify_window_titles": 2,
    "nop": 0,
    "categorize": 2,
    "tag": 2,
}
GOOD_ARGS = {
    "find_bucket": ['"aw-watcher"', '"host1"'],
    "query_bucket": ['"%s"' % BUCKET],
    "query_bucket_eventcount": ['"%s"' % BUCKET],
    "filter_keyvals": ["[]", '"app"', "[]"],
    "exclude_keyvals": ["[]", '"app"', "[]"],
    "filter_keyvals_regex": ["[]", '"app"', '"x"'],
    "filter_period_intersect": ["[]", "[]"],
    "period_union": ["[]", "[]"],
    "limit_events": ["[]", "1"],
    "merge_events_by_keys": ["[]", "[]"],
    "chunk_events_by_key": ["[]", '"app"'],
    "sort_by_timestamp": ["[]"],
    "sort_by_duration": ["[]"],
    "sum_durations": ["[]"],
    "concat": ["[]", "[]"],
    "union_no_overlap": ["[]", "[]"],
    "flood": ["[]"],
    "split_url_events": ["[]"],
    "simplify_window_titles": ["[]", '"title"'],
    "nop": [],
    "categorize": ["[]", "[]"],
    "tag": ["[]", "[]"],
}
TYPED_FUNCS = sorted(ARITY)


def typed_text(c):
    f, ws, q = c["f"], c["ws"], c["q"]
    good = GOOD_ARGS[f]
    sep = ws + "," + ws
    w = c["which"]
    if w == "undefined_var":
        return f"RETURN{ws}={ws}never_defined_{c['n']}", "QueryInterpretException"
    if w == "unknown_function":
        return f"RETURN{ws}={ws}no_such_fn{c['n']}({sep.join(good)})", "QueryInterpretException"
    if w == "too_many":
        return f"RETURN{ws}={ws}{f}({sep.join(good + ['1'] * (1 + c['n']))})", "QueryInterpretException"
    if w == "too_few":
        if not good:
            return f"RETURN{ws}={ws}never_defined", "QueryInterpretException"
        k = 0 if f == "find_bucket" else c["n"] % len(good)  # find_bucket's second parameter is optional
        return f"RETURN{ws}={ws}{f}({sep.join(good[:k])})", "QueryInterpretException"
    if w == "wrong_type":
        if not good:
            return f'RETURN{ws}={ws}query_bucket({sep.join(["1"])})', "QueryFunctionException"
        i = c["n"] % len(good)
        bad = list(good)
        wrong = {"[": ["{}", "1", '"x"'], '"': ["7", "[1]", '{"a": 1}'], "1": ['"x"', "[]", "{}"]}[good[i][0]]
        bad[i] = wrong[(c["n"] // len(good)) % len(wrong)]
        return f"RETURN{ws}={ws}{f}({sep.join(bad)})", "QueryFunctionException"
    if w == "unknown_bucket":
        return f"RETURN{ws}={ws}query_bucket({q}no-such-bucket-{c['n']}{q})", "QueryFunctionException"
    if w == "unterminated_string":
        return f"RETURN{ws}={ws}{q}abc{c['n']}", "QueryParseException"
    if w == "empty_rhs":
        return f"a{ws}=", "QueryParseException"
    if w == "assign_nonvar":
        return [f"1{ws}={ws}2", f"{q}a{q}{ws}={ws}2", f"nop(){ws}={ws}2", f"[]{ws}={ws}1"][c["n"] % 4], "QueryParseException"
    if w == "no_return":
        return f"a{ws}={ws}1", "QueryParseException"
    raise ValueError(w)


def corrupt_text(c):
    text = qlang.render(c["prog"], c["ws"])
    for e in c["edits"]:
        if not text:
            break
        p = e["pos"] % len(text)
        op = e["op"]
        if op == "del":
            text = text[:p] + text[p + 1 :]
        elif op == "dup":
            text = text[: p + 1] + text[p] + text[p + 1 :]
        elif op == "swap" and p + 1 < len(text):
            text = text[:p] + text[p + 1] + text[p] + text[p + 2 :]
        elif op == "ins":
            text = text[:p] + e["ch"] + text[p:]
        elif op in ("dropbr", "dblbr"):
            idx = [i for i, ch in enumerate(text) if ch in "()[]{}'\""]
            if idx:
                i = idx[e["pos"] % len(idx)]
                text = text[:i] + (text[i] * 2 if op == "dblbr" else "") + text[i + 1 :]
        elif op == "blankarg":
            idx = [i for i, ch in enumerate(text) if ch in ",("]
            if idx:
                i = idx[e["pos"] % len(idx)]
                j = i + 1
                while j < len(text) and text[j] not in ",)":
                    j += 1
                text = text[: i + 1] + " " * (e["pos"] % 2) + text[j:]
        elif op == "stripsep":
            idx = [i for i, ch in enumerate(text) if ch in ",:;="]
            if idx:
                i = idx[e["pos"] % len(idx)]
                text = text[:i] + text[i + 1 :]
        elif op == "trunc":
            text = text[:p]
    return text


def known_key(case, v):
    return v.key


def deep_text(c):
    if c["open"] == "digits":
        # very long integer literals (CPython refuses to convert more than 4300 digits)
        body = "".join("1234567890"[(i * 7 + c["n"]) % 10] for i in range(c["n"] * 5))
        if c["via_var"]:
            return f"x=[{body},{{'k':{body}}}];RETURN=limit_events([],{body})"
        return "RETURN=" + body
    close = {"[": "]", "nop(": ")", '{"a":': "}", "concat([],": ")", "[1,": "]"}[c["open"]]
    inner = {"[": "", "nop(": "", '{"a":': "1", "concat([],": "[]", "[1,": "2"}[c["open"]]
    body = c["open"] * c["n"] + inner + close * max(0, c["n"] + c["unbalanced"])
    if c["via_var"]:
        return f"x={body};RETURN=[x,x]"
    return "RETURN=" + body


def case_text(case):
    if case["kind"] == "deep":
        return deep_text(case), None
    if case["kind"] == "text":
        return case["text"], None
    if case["kind"] == "corrupt":
        return corrupt_text(case), None
    return typed_text(case)


def run_case(case):
    text, expect = case_text(case)
    status = judge(text, expect)
    classes = [case["kind"], status.split(":")[0] if status.startswith("query_error") else status]
    if status.startswith("query_error"):
        classes.append(status.split(":")[1])
    if case["kind"] == "typed":
        classes.append("typed_" + case["which"])
    return {"nontrivial": is_nontrivial(text) or case["kind"] == "typed", "classes": classes, "evals": 1}


# ---------------------------------------------------------------------------
# (a) atheris


def phase_typed_all(task):
    """every typed corruption for every built-in, argument position and wrong literal (a finite set: enumerated, not sampled)"""
    st_ = Stats()
    whichs = ["undefined_var", "unknown_function", "too_many", "too_few", "wrong_type", "unknown_bucket", "unterminated_string", "empty_rhs", "assign_nonvar", "no_return"]
    for which in whichs[task["lo"] :: task["step"]]:
        for f in TYPED_FUNCS:
            for n in range(12):
                for ws in ("", " ", "\n"):
                    case = {"kind": "typed", "which": which, "f": f, "n": n, "ws": ws, "q": "'" if n % 2 else '"'}
                    try:
                        run_case(case)
                    except Violation as v:
                        st_.failure = {"kind": "case", "case": case, "message": v.msg}
                        return st_
                    st_.evals += 1
                    st_.nontrivial.add(case_hash(case))
    st_.classes["typed_enumerated"] = st_.evals
    return st_


def source_identifiers():
    """identifier-like string constants of the query modules (an automatic dictionary: names the code itself gives a meaning to)"""
    import re
    import types

    import aw_query.functions as f
    import aw_query.query2 as q

    seen, out = set(), set()

    def walk(code):
        consts = list(code.co_consts)
        while consts:
            c = consts.pop()
            if isinstance(c, str) and re.fullmatch(r"[A-Za-z_][A-Za-z0-9_]{0,30}", c):
                out.add(c)
            elif isinstance(c, (tuple, frozenset)):
                consts.extend(c)
            elif isinstance(c, types.CodeType):
                walk(c)

    for mod in (f, q):
        for obj in vars(mod).values():
            for fn in (obj, getattr(obj, "__wrapped__", None)):
                code = getattr(fn, "__code__", None)
                if code is not None and id(code) not in seen:
                    seen.add(id(code))
                    walk(code)
            if isinstance(obj, type):
                for m in vars(obj).values():
                    code = getattr(getattr(m, "__func__", m), "__code__", None)
                    if code is not None and id(code) not in seen:
                        seen.add(id(code))
                        walk(code)
    return sorted(out)[:300]


def phase_named_state(task):
    """for every identifier the query modules mention: bind it to a list / dict / string naming a non-existent bucket, then ask
    for that bucket - an unknown bucket stays a function error whatever the program's variables are called"""
    st_ = Stats()
    names = source_identifiers()
    for name in names[task["lo"] :: task["step"]]:
        for val in ('["no-such-bucket"]', '{"no-such-bucket": 1}', '"no-such-bucket"'):
            for call in ('query_bucket("no-such-bucket")', 'query_bucket_eventcount("no-such-bucket")', 'find_bucket("no-such-bucket")'):
                text = f"{name} = {val}; RETURN = {call};"
                try:
                    status = judge(text)
                    if status not in ("query_error:QueryFunctionException", "query_error:QueryParseException"):
                        # (a name that cannot be assigned - e.g. one that lexes as a call - may be a parse error instead)
                        raise Violation(f"query {text!r}: an unknown bucket must be a QueryFunctionException, got {status}", key="wrong_class:unknown_bucket")
                except Violation as v:
                    st_.failure = {"kind": "text", "case": {"text": text}, "message": v.msg}
                    return st_
                st_.evals += 1
                st_.nontrivial.add(case_hash(text))
    st_.classes["named_state_cases"] = st_.evals
    return st_


def phase_deep_sweep(task):
    """nesting depths across the whole band in which the interpreter stack runs out, with a literal or a call innermost"""
    st_ = Stats()
    pairs = {"[": "]", '{"a":': "}", "concat([],": ")"}
    for n in range(task["lo"], task["hi"], task.get("step", 1)):
        for opener in task["openers"]:
            closer = pairs[opener]
            for inner in task["inners"]:
                text = "RETURN=" + opener * n + inner + closer * n
                try:
                    judge(text)
                except Violation as v:
                    st_.failure = {"kind": "text", "case": {"text": text}, "message": v.msg}
                    return st_
                st_.evals += 1
    st_.classes["deep_sweep_cases"] = st_.evals
    return st_


def extra_phases(tier, seed, jobs):
    tasks = []
    if tier == "quick":
        tasks.append({"runs": 60000, "seed": seed * 100 + 1, "corpus": False, "budget_s": 240})
        tasks.append({"runs": 60000, "seed": seed * 100 + 2, "corpus": True, "budget_s": 240})
    else:
        for w in range(jobs):
            tasks.append({"runs": 1500000, "seed": seed * 100 + w + 1, "corpus": w % 2 == 1, "budget_s": 3600})
    q = 'query_bucket("%s")' % BUCKET
    if tier == "quick":  # every depth of the band for lists around a call / a literal; the other brackets every 7th depth
        sweep = [{"lo": lo, "hi": lo + 20, "openers": ["["], "inners": ["nop()", "1"]} for lo in range(920, 1040, 20)]
        sweep += [{"lo": 900 + k, "hi": 1060, "step": 14, "openers": ['{"a":', "concat([],"], "inners": ["nop()", q]} for k in (0, 7)]
    else:
        sweep = [{"lo": lo, "hi": lo + 10, "openers": ["[", '{"a":', "concat([],"], "inners": ["nop()", "1", q, "[]"]} for lo in range(860, 1100, 10)]
    return [
        ("atheris", "phase_atheris", tasks),
        ("typed_all", "phase_typed_all", [{"lo": i, "step": 5} for i in range(5)]),
        ("named_state", "phase_named_state", [{"lo": i, "step": 4} for i in range(4)]),
        ("deep_sweep", "phase_deep_sweep", sweep),
    ]


def phase_atheris(task):
    st_ = Stats()
    try:
        import atheris  # noqa
    except ImportError:
        st_.notes["atheris_unavailable"] = 1
        return st_
    out = env.fresh_dir()
    corpus = env.fresh_dir()
    args = [sys.executable, "-B", os.path.join(env.VERIF, "vlib", "fuzz_c17.py"), out, corpus, f"-runs={task['runs']}", f"-seed={task['seed']}", "-max_len=128", "-len_control=0", f"-dict={os.path.join(env.VERIF, 'corpus', 'c17.dict')}", "-timeout=30", f"-max_total_time={task.get('budget_s', 300)}", "-rss_limit_mb=4096", "-verbosity=0", "-print_final_stats=0", f"-artifact_prefix={out}/"]
    if task["corpus"]:
        src = os.path.join(env.VERIF, "corpus", "c17")
        for name in sorted(os.listdir(src)):
            with open(os.path.join(src, name), "rb") as f, open(os.path.join(corpus, name), "wb") as g:
                g.write(f.read())
    envv = dict(os.environ, VERIF_REPO=env.REPO, PYTHONPATH=os.pathsep.join([env.VERIF, os.path.join(env.VERIF, ".deps")]), PYTHONHASHSEED="0")
    p = subprocess.run(args, env=envv, stdout=subprocess.PIPE, stderr=subprocess.STDOUT, timeout=3600 * 3)
    stats = {}
    try:
        with open(os.path.join(out, "stats.json")) as f:
            stats = json.load(f)
    except Exception:
        st_.error = f"atheris target produced no statistics (exit {p.returncode}): {p.stdout[-1500:].decode(errors='replace')}"
        return st_
    st_.evals = stats.get("execs", 0)
    st_.cases = stats.get("execs", 0)
    for h in stats.get("nontrivial_hashes", []):
        st_.nontrivial.add(h)
    st_.notes["nontrivial_seen"] = stats.get("nontrivial", 0)
    for k, v in stats.get("classes", {}).items():
        st_.classes[k] += v
    st_.classes["nontrivial"] += stats.get("nontrivial", 0)
    st_.samples = stats.get("samples", [])[:2]
    st_.notes["corpus_seeded" if task["corpus"] else "corpus_empty"] = 1
    st_.notes["exit_code"] = p.returncode
    known = None
    for name in sorted(os.listdir(out)):
        if not name.startswith("finding-"):
            continue
        with open(os.path.join(out, name), encoding="utf-8") as f:
            text = f.read()
        # confirm by plain replay in this (fresh) process
        try:
            judge(text)
        except Violation as v:
            from vlib import runner

            if known is None:
                known = runner.load_known(ID)
            if v.key in known:
                st_.excluded[v.key] += 1
                continue
            if st_.failure is None:
                st_.failure = {"kind": "text", "case": {"text": text}, "message": v.msg}
        else:
            st_.notes["unreproducible_findings"] = st_.notes.get("unreproducible_findings", 0) + 1
    return st_


def replay_text(p):
    judge(p["text"])


def known_key_text(case, v):
    return v.key
