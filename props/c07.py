"""C07 — heartbeat ingestion through the store equals heartbeat_reduce of the stream."""
import copy
import json
from datetime import timedelta

from hypothesis import strategies as st

from vlib import gen, stores
from vlib.runner import Violation, sut

ID = "C07"
RULE = (
    "case = backend x pulsetime (0, 1 ms, 0.5 s, 1 s, 5 s, 60 s, or exactly one of the stream's gaps; a third of the time moved by a fraction of a microsecond or by 1/3 ms, i.e. a float that is no whole number of microseconds) x stream of 1..25 heartbeats built constructively: "
    "ts_i = ts_{i-1} + d (d >= 1 ms), end_i = max(end_{i-1}, ts_i) + extra with extra = 0 about half the time (zero-length heartbeats, heartbeats starting exactly "
    "at the previous end, end instants that tie with the previous event), data from {A,B,C} (one case in four: titles with non-ASCII text and an unpaired surrogate) with runs and alternation; 1..2 other buckets on the same store "
    "pre-populated with events whose end instants or start instants coincide with points of the stream. Oracle: the standard loop (get(limit=1) -> heartbeat_merge -> "
    "replace_last | insert); at the end get(-1) ascending == heartbeat_reduce(deep copy of the stream, pulsetime) as (instant, duration, data); after EACH heartbeat "
    "all events but the newest are unchanged and the other buckets' dumps are unchanged. Non-trivial = the stream contains a merge, a non-merge and an end-instant tie."
)
ASSUMPTIONS = [
    "heartbeat_reduce is the reference here; it is judged itself by C08",
    "streams have strictly increasing timestamps and non-decreasing end instants (the property's domain)",
]
BASE_US = 1_650_000_000_000_000


def budget(tier):
    return 400 if tier == "quick" else 6000


@st.composite
def strategy(draw, tier="quick"):
    n = draw(st.integers(1, 25))
    hbs = []
    ts = draw(st.integers(0, 5000))
    end = ts
    runlen = draw(st.sampled_from([1, 2, 3, 6]))
    # what the data says does not matter to the loop, only whether it is equal; one case in four uses real-looking titles instead of
    # letters: non-ASCII text, and a title cut in the middle of an emoji (an unpaired surrogate - legal in a str and in JSON)
    pool = draw(st.sampled_from(["ABC", "ABC", "ABC", ["A", "title \ud83d", "\u65e5\u672c \U0001f642"]]))
    label = draw(st.sampled_from(pool))
    for i in range(n):
        if i:
            ts += draw(st.sampled_from([1, 1, 2, 500, 1000, 1000, 4999, 5000, 5001, 60000]))
        if draw(st.integers(0, 3)) == 0 and i:  # start exactly at the previous end when possible
            ts = max(ts, end)
        extra = draw(st.sampled_from([0, 0, 0, 1, 1000, 2000, 0, 0, 0, 1, 1000, 2000, 86_400_000, 90_000_000]))  # rarely: a heartbeat reaching a day ahead
        end = max(end, ts) + extra
        if i % runlen == 0 or draw(st.integers(0, 5)) == 0:
            label = draw(st.sampled_from(pool))
        hbs.append({"ts_ms": ts, "dur_ms": end - ts, "data": label})
    pm = draw(st.integers(0, 7))
    if pm == 0 and n >= 2:
        i = draw(st.integers(0, n - 2))
        gap = hbs[i + 1]["ts_ms"] - (hbs[i]["ts_ms"] + hbs[i]["dur_ms"])
        p_ms = max(0, gap)
    else:
        p_ms = draw(st.sampled_from([0, 1, 500, 1000, 5000, 5000, 60000]))
    others = []
    for _ in range(draw(st.integers(1, 2))):
        evs = []
        for _ in range(draw(st.integers(1, 4))):
            h = draw(st.sampled_from(hbs))
            endp = h["ts_ms"] + h["dur_ms"]
            d = draw(st.sampled_from([0, 1000, 3000]))
            if draw(st.booleans()):
                evs.append({"ts_ms": max(0, endp - d), "dur_ms": min(d, endp), "data": "X"})
            else:  # or starting at exactly the same instant as a heartbeat of the stream
                evs.append({"ts_ms": h["ts_ms"], "dur_ms": d, "data": "X"})
        others.append(evs)
    # "all pulsetimes": also floats that are not a whole number of microseconds (the store loop and heartbeat_reduce must still agree)
    nudge = draw(st.sampled_from([0, 0, 0, 0, -1e-7, 1e-7, -4e-7, 4e-7, 1 / 3000, 1e-4 / 3]))
    return {"backend": draw(st.sampled_from(stores.BACKENDS)), "p_ms": p_ms, "p_nudge": nudge, "stream": hbs, "others": others}


def known_key(case, v):
    return v.key


def _mk(Event, h):
    return Event(timestamp=gen.dt_utc(BASE_US + h["ts_ms"] * 1000), duration=timedelta(milliseconds=h["dur_ms"]), data={"k": h["data"]})


def _t(e):
    return (gen.to_us(e.timestamp) - BASE_US, gen.td_us(e.duration), json.dumps(e.data, sort_keys=True))


def run_case(case):
    from aw_core.models import Event
    from aw_transform import heartbeat_merge, heartbeat_reduce

    be = case["backend"]
    p = max(0.0, case["p_ms"] / 1000 + case.get("p_nudge", 0))
    stream = case["stream"]
    with sut("heartbeat_reduce (reference)"):
        expected = [_t(e) for e in heartbeat_reduce([_mk(Event, h) for h in stream], p)]
    merges = nonmerges = 0
    with stores.store(be) as ds:
        with sut(f"{be}: setup"):
            for i, evs in enumerate(case["others"]):
                ob = stores.create_bucket(ds, f"other{i}")
                for h in evs:
                    ob.insert(_mk(Event, h))
            b = stores.create_bucket(ds, "hb")
            others_before = stores.api_dump(ds, exclude={"hb"})
        prev = []
        for i, h in enumerate(stream):
            hb = _mk(Event, h)
            with sut(f"{be}: heartbeat {i}"):
                last = b.get(limit=1)
                merged = heartbeat_merge(last[0], hb, p) if last else None
                if merged is not None:
                    b.replace_last(merged)
                    merges += 1
                else:
                    b.insert(hb)
                    if last:
                        nonmerges += 1
                now = sorted(_t(e) for e in b.get(limit=-1))
            # every event except the newest is unchanged from the step before
            if prev:
                older = prev[:-1] if merged is not None else prev
                rest = list(now)
                for t in older:
                    if t in rest:
                        rest.remove(t)
                    else:
                        raise Violation(
                            f"{be}: heartbeat {i} {h} (pulsetime {p}) altered or lost an earlier event {t}; bucket before {prev}, after {now}; stream {stream[: i + 1]}",
                            key="earlier_event_altered",
                        )
                if len(rest) != 1:
                    raise Violation(f"{be}: heartbeat {i} {h}: bucket went from {prev} to {now}")
            prev = now
            with sut(f"{be}: dump other buckets"):
                if stores.api_dump(ds, exclude={"hb"}) != others_before:
                    raise Violation(f"{be}: heartbeat {i} {h} changed another bucket: {others_before} -> {stores.api_dump(ds, exclude={'hb'})}", key="other_bucket_changed")
        with sut(f"{be}: final read"):
            final = [_t(e) for e in reversed(b.get(limit=-1))]
        if final != expected:
            raise Violation(f"{be}: bucket holds {final}; heartbeat_reduce(stream, {p}) = {expected}; stream {stream}")
    tie = any(stream[i]["ts_ms"] + stream[i]["dur_ms"] == stream[i + 1]["ts_ms"] + stream[i + 1]["dur_ms"] for i in range(len(stream) - 1))
    classes = [be]
    if merges:
        classes.append("merge")
    if nonmerges:
        classes.append("non_merge")
    if tie:
        classes.append("end_tie")
    if any(h["dur_ms"] == 0 for h in stream):
        classes.append("zero_length")
    return {"nontrivial": bool(merges and nonmerges and tie), "classes": classes, "evals": len(stream)}
