"""C03 — time-window reads return exactly the intersecting events, newest first, limited."""
import json

from hypothesis import strategies as st

from vlib import gen, stores
from vlib.runner import Violation, sut

ID = "C03"
TOL = 2000  # us: "only events within about 2 ms of an edge may go either way"
RULE = (
    "case = backend x base instant (boundary-biased) x 1..10 events (offset 0..100 s on a ms grid, duration from {0, 1 us, 999 us, 1 ms, 24 h} + uniform <= 50 s, "
    "so nesting/overlap/adjacency are the norm), optionally followed by 1..4 modifications (replace / replace_last with a new instant, delete, late insert) so that the contents are the result of a history, x 1..5 windows (start None | any us in [-5 s, 105 s] | near any event edge incl. the end of a 24 h event; length None | 0 | sub-ms | any; given at a random UTC offset) x "
    "limits from {-7,-1,0,1,2,3,100}. Oracle with the stored intervals known exactly from the generator and TOL = 2 ms: MUST (reaches into the window by more than "
    "TOL) subset-of returned subset-of MUST+MAY, no duplicates, timestamps non-increasing, each returned event == the stored event or the stored event cut to the "
    "window (edges within TOL, id/data untouched); limit n>0 -> min(n,|full|) entries whose timestamps are the first n of the unlimited read and which are a "
    "sub-multiset of it, 0 -> empty, n<0 -> unlimited; get_eventcount(window) in [|MUST|, |MUST+MAY|]. Non-trivial = a window strictly cuts through an event and two "
    "stored events overlap or nest."
    " Extra phase 'large': per backend a bucket of 10 301 events in groups of 3 sharing a start instant, so that the 10 000th and 10 001st newest share one (thorough: also 10 300, 21 000 in groups of 7, 20 003 in fours), read whole, with limits 10001/9999 and through windows that cut a group; ids, order and counts against the model (a read longer than any page or batch a backend may work in)."
)
ASSUMPTIONS = [
    "edge tolerance 2 ms and the 24 h maximum event length are taken from the property",
    "clipping is accepted on any backend (the property only constrains what a clipped event may look like)",
    "windows start within [-5 s, +105 s] of the base instant or near an edge of a stored event (including the far end of hour- and day-long events); at most 10 events per bucket",
]
DAY = gen.DAY_US
INF = 10**30


def budget(tier):
    return 500 if tier == "quick" else 8000


@st.composite
def strategy(draw, tier="quick"):
    base = gen.floor_ms(draw(gen.instants(lo=2 * DAY, hi=gen.MAX_US - 3 * DAY)))
    if draw(st.integers(0, 11)) == 0:
        # the first hours of 1970-01-01 at +14:00 are instants before the epoch
        base = -draw(st.sampled_from([14 * 3600, 13 * 3600, 3600, 60, 50, 1])) * 10**6
    n = draw(st.integers(1, 10))
    evs = []
    for _ in range(n):
        off_ms = draw(st.one_of(st.integers(0, 20), st.integers(0, 100_000)))
        dur = draw(
            st.one_of(
                st.sampled_from([0, 1, 999, 1000, 1001, 2000, DAY, 10**6, 5 * 10**6, DAY - 1000, 20 * 3600 * 10**6, 3600 * 10**6]),
                st.integers(0, 50 * 10**6),
                st.integers(0, 50_000).map(lambda m: m * 1000),
                st.integers(0, 24 * 3600).map(lambda sec: sec * 10**6),
            )
        )
        evs.append({"off_ms": off_ms, "dur_us": dur})
    mods = []
    longest = max(e["dur_us"] for e in evs)
    for _ in range(draw(st.sampled_from([0, 0, 1, 2, 4]))):
        kind = draw(st.sampled_from(["replace", "replace", "replace_last", "delete", "insert", "upsert", "upsert"]))
        # the re-timed event may become the longest the bucket has ever held
        dur = draw(st.sampled_from([0, 1000, 10**6, 5 * 10**6, 50 * 10**6, min(DAY, longest + 2000), min(DAY, longest + 5 * 10**6), min(DAY, 2 * longest + 10**6)]))
        mods.append({"op": kind, "k": draw(st.integers(0, 20)), "off_ms": draw(st.one_of(st.integers(0, 20), st.integers(0, 100_000))), "dur_us": dur})
        longest = max(longest, dur)
    wins = []
    edges = sorted(
        {e["off_ms"] * 1000 for e in evs} | {e["off_ms"] * 1000 + e["dur_us"] for e in evs}  # incl. the far ends of hour- and day-long events
        | {m["off_ms"] * 1000 + m["dur_us"] for m in mods} | {m["off_ms"] * 1000 for m in mods}  # and of what the history turns them into
    )
    for _ in range(draw(st.integers(1, 5))):
        smode = draw(st.integers(0, 4))
        if smode == 0:
            s = None
        elif smode == 1:
            s = draw(st.sampled_from(edges)) + draw(st.sampled_from([-3000, -2001, -1000, -1, 0, 1, 999, 1000, 2001, 3000, 500_000, -60 * 10**6, -3600 * 10**6]))
        else:
            s = draw(st.integers(-5 * 10**6, 105 * 10**6))
        lmode = draw(st.integers(0, 5))
        if lmode == 0:
            ln = None
        elif lmode == 1:
            ln = 0
        elif lmode == 2:
            ln = draw(st.integers(1, 999))
        elif lmode == 3 and s is not None:
            ln = max(0, draw(st.sampled_from(edges)) + draw(st.sampled_from([-2001, -1, 0, 1, 2001, 250_000])) - s)
        else:
            ln = draw(st.integers(0, 60 * 10**6))
        wins.append({"s": s, "len": ln, "end_abs": draw(st.integers(-5 * 10**6, 105 * 10**6)), "tz": draw(gen.offsets()), "tz2": draw(gen.offsets())})
    return {"backend": draw(st.sampled_from(stores.BACKENDS)), "base": base, "events": evs, "mods": mods, "early_read": draw(st.booleans()), "pre": draw(st.integers(0, 2)), "first_read_limit1": draw(st.booleans()), "windows": wins, "limits": draw(st.lists(st.sampled_from([-7, -1, 0, 1, 2, 3, 100]), min_size=1, max_size=3, unique=True))}


def known_key(case, v):
    return v.key


def _window(case, w):
    base = case["base"]
    s = None if w["s"] is None else base + w["s"]
    if w["len"] is None:
        e = None
    elif s is None:
        e = base + w["end_abs"]
    else:
        e = s + w["len"]
    return s, e


def run_case(case):
    from aw_core.models import Event

    be = case["backend"]
    base = case["base"]
    stored = {}
    cut = overlap = False
    nevals = 0
    with stores.store(be) as ds:
        with sut(f"{be}: setup"):
            for k in range(case.get("pre", 0)):  # the bucket's row id differs from store to store
                stores.create_bucket(ds, f"earlier{k}")
            b = stores.create_bucket(ds, "b")
            for i, e in enumerate(case["events"]):
                r = b.insert(stores.mk_event(Event, {"us": base + e["off_ms"] * 1000, "off": 840 if base < 0 else 0, "dur_us": e["dur_us"], "data": {"i": i}}))
                stored[r.id] = (base + e["off_ms"] * 1000, base + e["off_ms"] * 1000 + e["dur_us"], i)
            if case.get("early_read"):
                # a windowed read and count BEFORE the history continues (a store may remember things about its contents)
                w0 = gen.dt_utc(base + 1000)
                b.get(limit=2, starttime=w0)
                b.get_eventcount(starttime=w0)
            # the bucket's contents may also be the result of a history: events re-timed by replace / replace_last, deleted, added later
            for j, m in enumerate(case.get("mods", [])):
                ids_now = sorted(stored)
                new = (base + m["off_ms"] * 1000, base + m["off_ms"] * 1000 + m["dur_us"], 1000 + j)
                ev = stores.mk_event(Event, {"us": new[0], "off": 840 if base < 0 else 0, "dur_us": m["dur_us"], "data": {"i": new[2]}})
                if m["op"] == "insert" or not ids_now:
                    stored[b.insert(ev).id] = new
                elif m["op"] == "delete":
                    eid = ids_now[m["k"] % len(ids_now)]
                    b.delete(eid)
                    del stored[eid]
                elif m["op"] == "replace":
                    eid = ids_now[m["k"] % len(ids_now)]
                    b.replace(eid, ev)
                    stored[eid] = new
                elif m["op"] == "upsert":  # re-timed through a bulk insert that carries its id
                    eid = ids_now[m["k"] % len(ids_now)]
                    ev.id = eid
                    b.insert([ev])
                    stored[eid] = new
                else:
                    last = b.get(limit=1)
                    if len(last) != 1 or last[0].id not in stored:
                        raise Violation(f"{be}: limit-1 read on a non-empty bucket returned {last!r}")
                    b.replace_last(ev)
                    stored[last[0].id] = new
        if case.get("first_read_limit1") and stored:
            # the very first read after the history is a windowless limit-1 read: it must return a newest event
            with sut(f"{be}: get(limit=1) right after the history"):
                one = b.get(limit=1)
            top = max(v[0] for v in stored.values())
            if len(one) != 1 or one[0].id not in stored or stored[one[0].id][0] != top:
                raise Violation(
                    f"{be}: get(limit=1) right after the history returned {[(x.id, gen.to_us(x.timestamp) - base) for x in one]}, the newest stored timestamp is {top - base} "
                    f"(stored {[(i, v[0] - base) for i, v in sorted(stored.items())]}; events {case['events']}; modifications {case.get('mods')})"
                )
        ivs = sorted(v[:2] for v in stored.values())
        overlap = any(y[0] < x[1] for x, y in zip(ivs, ivs[1:])) or any(x[0] <= y[0] and y[1] <= x[1] and x != y for x in ivs for y in ivs)
        for w in case["windows"]:
            s, e = _window(case, w)
            S = -INF if s is None else s
            E = INF if e is None else e
            sdt = None if s is None else gen.dt_at(s, w["tz"])
            edt = None if e is None else gen.dt_at(e, w["tz2"])
            must = {i for i, (a, z, _) in stored.items() if z - S > TOL and E - a > TOL}
            never = {i for i, (a, z, _) in stored.items() if S - z > TOL or a - E > TOL}
            desc = f"{be}: window [{'-inf' if s is None else s - base}, {'+inf' if e is None else e - base}] us rel. base {base}, stored {[(a - base, z - base) for a, z, _ in stored.values()]}"
            if any(a < S < z or a < E < z for a, z, _ in stored.values()):
                cut = True
            with sut(f"{be}: get(window)"):
                full = b.get(limit=-1, starttime=sdt, endtime=edt)
            nevals += 1
            ids = [x.id for x in full]
            if len(set(ids)) != len(ids):
                raise Violation(f"{desc}: an event was returned twice: {ids}")
            got = set(ids)
            if not must <= got:
                raise Violation(f"{desc}: events reaching into the window are missing: {[(stored[i][0] - base, stored[i][1] - base) for i in must - got]}")
            if got & never:
                raise Violation(f"{desc}: events outside the window were returned: {[(stored[i][0] - base, stored[i][1] - base) for i in got & never]}")
            if not got <= set(stored):
                raise Violation(f"{desc}: unknown ids returned: {got - set(stored)}")
            tss = [gen.to_us(x.timestamp) for x in full]
            if any(x < y for x, y in zip(tss, tss[1:])):
                raise Violation(f"{desc}: result not ordered by timestamp descending: {[t - base for t in tss]}", key="order")
            for x in full:
                a, z, i = stored[x.id]
                ts, en = gen.to_us(x.timestamp), gen.to_us(x.timestamp) + gen.td_us(x.duration)
                if x.data != {"i": i}:
                    raise Violation(f"{desc}: event {x.id} came back with data {x.data!r}")
                ok_s = ts == a or (abs(ts - max(a, S)) <= TOL and ts >= a)
                ok_e = en == z or (abs(en - min(z, E)) <= TOL and en <= z + 0)
                if not (ok_s and ok_e) or en < ts - TOL:
                    raise Violation(f"{desc}: stored event ({a - base},{z - base}) came back as ({ts - base},{en - base}): neither the stored event nor a pure cut to the window")
            for n in case["limits"]:
                with sut(f"{be}: get(limit={n}, window)"):
                    lim = b.get(limit=n, starttime=sdt, endtime=edt)
                nevals += 1
                lt = [gen.to_us(x.timestamp) for x in lim]
                tup = lambda xs: sorted((x.id, gen.to_us(x.timestamp), gen.td_us(x.duration), json.dumps(x.data, sort_keys=True)) for x in xs)
                if n == 0:
                    if lim:
                        raise Violation(f"{desc}: limit=0 returned {len(lim)} events")
                elif n < 0:
                    if tup(lim) != tup(full) or lt != tss:
                        raise Violation(f"{desc}: limit={n} differs from the unlimited read")
                else:
                    if len(lim) != min(n, len(full)):
                        raise Violation(f"{desc}: limit={n} returned {len(lim)} of {len(full)} events")
                    if lt != tss[: len(lim)]:
                        raise Violation(f"{desc}: limit={n} did not keep the newest: timestamps {[t - base for t in lt]} vs unlimited {[t - base for t in tss]}", key="order")
                    ft = tup(full)
                    for t in tup(lim):
                        if t not in ft:
                            raise Violation(f"{desc}: limit={n} returned an event the unlimited read does not contain: {t}")
                        ft.remove(t)
            with sut(f"{be}: get_eventcount(window)"):
                cnt = b.get_eventcount(starttime=sdt, endtime=edt)
            nevals += 1
            if not (len(must) <= cnt <= len(stored) - len(never)):
                raise Violation(
                    f"{desc}: get_eventcount = {cnt}, but {len(must)} events certainly reach into the window and {len(stored) - len(never)} possibly do",
                    key="memory_eventcount" if be == "memory" else None,
                )
    classes = [be]
    if cut:
        classes.append("window_cuts_event")
    if overlap:
        classes.append("overlap_or_nest")
    if any(w["s"] is None for w in case["windows"]):
        classes.append("open_start")
    if any(w["len"] is None for w in case["windows"]):
        classes.append("open_end")
    if any(w["len"] == 0 for w in case["windows"]):
        classes.append("zero_width")
    return {"nontrivial": cut and overlap, "classes": classes, "evals": nevals}


# ---------------------------------------------------------------------------
# large buckets: reads that are longer than any page or batch a backend may work in

_LARGE_NOTE = "extra phase 'large': per backend a bucket of N events in groups of 3 (quick N=10 300; thorough also 21 000 and groups of 7) that share one start instant, read whole (limit -1), with a limit just above/below round sizes and through windows cutting a group; ids, order and counts against the model"


def extra_phases(tier, seed, jobs):
    sizes = [(10301, 3)] if tier == "quick" else [(10301, 3), (10300, 3), (21000, 7), (20003, 4)]
    return [("large", "phase_large", [{"backend": be, "n": n, "group": g} for be in stores.BACKENDS for n, g in sizes])]


def _large(task):
    from aw_core.models import Event

    be, n, g = task["backend"], task["n"], task["group"]
    base = 1_650_000_000_000_000
    with stores.store(be) as ds:
        with sut(f"{be}: setup of {n} events"):
            b = stores.create_bucket(ds, "b")
            # group k: g events starting at the same instant k seconds after base, each 1.5 s long (so neighbours overlap)
            b.insert([stores.mk_event(Event, {"us": base + (k // g) * 10**6, "off": 0, "dur_us": 1_500_000, "data": {"i": k}}) for k in range(n)])
        model = [(base + (k // g) * 10**6, k) for k in range(n)]
        ngroups = (n + g - 1) // g
        # window edges a quarter of a second away from every start (whole seconds) and end (half seconds): nothing merely touches a window
        q = 250_000
        windows = [(None, None), (base + 5 * 10**6 + q, None), (None, base + (ngroups - 200) * 10**6 + q), (base + 100 * 10**6 + q, base + (ngroups - 100) * 10**6 + q)]
        for ws, we in windows:
            exp = sorted((i for (t, i) in model if (ws is None or t + 1_500_000 >= ws) and (we is None or t <= we)), key=lambda i: (-(i // g), 0))
            kw = {}
            if ws is not None:
                kw["starttime"] = gen.dt_utc(ws)
            if we is not None:
                kw["endtime"] = gen.dt_utc(we)
            for limit in (-1, 10001, 9999, len(exp) + 5):
                with sut(f"{be}: get(limit={limit}) over {n} events"):
                    got = [e.data["i"] for e in b.get(limit=limit, **kw)]
                want = len(exp) if limit < 0 else min(limit, len(exp))
                what = f"{be}: {n} events in groups of {g} per instant, window [{ws}, {we}] us, limit {limit}"
                if len(got) != len(set(got)):
                    raise Violation(f"{what}: an event is returned twice")
                if len(got) != want:
                    raise Violation(f"{what}: {len(got)} events returned, {want} intersect the window (within the limit); missing e.g. {sorted(set(exp) - set(got))[:5]}")
                if [i // g for i in got] != [i // g for i in exp[:want]]:
                    raise Violation(f"{what}: not newest first, or not the newest {want}")
                if limit < 0 and set(got) != set(exp):
                    raise Violation(f"{what}: wrong events: missing {sorted(set(exp) - set(got))[:5]}, unexpected {sorted(set(got) - set(exp))[:5]}")
            with sut(f"{be}: get_eventcount over {n} events"):
                cnt = b.get_eventcount(**kw)
            if cnt != len(exp):
                raise Violation(f"{be}: {n} events in groups of {g} per instant, window [{ws}, {we}] us: count {cnt}, {len(exp)} events intersect the window")
    return 4 * len(windows) + len(windows)


def phase_large(task):
    from vlib.runner import Stats

    st_ = Stats()
    try:
        st_.evals = _large(task)
    except Violation as v:
        st_.failure = {"kind": "large", "case": task, "message": v.msg[:1500]}
        return st_
    st_.classes[f"large:{task['backend']}:{task['n']}"] = 1
    return st_


def replay_large(task):
    _large(task)

