"""C06 — after a crash the database holds a prefix of what was done, minus a bounded tail."""
import json
import os
import signal
import sqlite3
import sys
import time

from hypothesis import strategies as st

from vlib import crash, env, stores
from vlib.runner import Stats, Violation, case_hash, sut

ID = "C06"
LEVEL = "fault_enumeration"
TAIL = 64
RULE = (
    "case = backend in {sqlite (lazy commit), peewee} x history of 5..60 generated operations (expanded: runs of up to 90 deletes, bulk inserts of 0..130 events "
    "crossing the 50-statement threshold and peewee's 100-row chunk, upserts, replace, replace_last, bucket create/update/delete (also placed right after exactly 48..51 buffered single writes, i.e. at the count threshold), interspersed reads, and operations that are rejected with an exception: deleting a non-existent bucket, bulk insert through the stale handle of a deleted bucket). The crash point "
    "is not sampled: a trace callback on the writer connection observes EVERY SQL statement boundary and every operation return through a second connection (what a "
    "process death would leave). Oracle, purely observational (L_i = writer's view after operation i, D = second connection's view): (1) every D equals some L_j or is "
    "row-wise between L_{j-1} and L_j, with j non-decreasing; (2) sqlite: for single-event and bucket-level operations D is never in between; (3) after a bucket "
    "create/update/delete returns D == L_i; (4) sqlite: after every return the rows changed by not-yet-durable operations number <= 64; (5) peewee: after every return "
    "D == L_i; (6) reads and rejected operations leave the writer's view unchanged (no completed write is lost). Extra phase 'kills': child processes run seeded histories on a disk file and die by SIGKILL / os._exit / exit-without-close at a chosen statement index "
    "or (thorough) from a timer; the file reopened with plain sqlite3 must equal the in-process D at that index (timer: be one of the observed D). "
    "Non-trivial = (sqlite) an event write triggers the count-threshold flush at least once and a delete or bucket-level operation happens while writes are pending; (peewee) some multi-statement operation is observed half-done."
)
ASSUMPTIONS = [
    "a dying process is modelled (what SQLite has committed), not power loss / fsync ordering",
    "'about 50' buffered writes: alarm line 64 rows",
    "row-wise 'between' admits any subset of one operation's row changes, not only prefixes in issue order",
    "SQLite's own atomic commit is trusted between statement boundaries; timer kills sample those instants",
]


def budget(tier):
    return 150 if tier == "quick" else 4000


@st.composite
def strategy(draw, tier="quick"):
    return {"backend": draw(st.sampled_from(["sqlite", "sqlite", "peewee"])), "ops": draw(crash.history_strategy(max_ops=60 if tier == "quick" else 120))}


def known_key(case, v):
    return v.key


class Oracle:
    def __init__(self, backend, path):
        self.backend = backend
        self.obs = crash.Observer(path)
        self.Ls = {}  # index -> dump (only the still-relevant tail is kept)
        self.diffs = {}  # op index -> rows changed by that op
        self.kinds = {}
        self.rank = 0
        self.seen = []  # D observed during the current op: (stmt index, dump)
        self.stmt = 0
        self.points = 0
        self.flags = {"threshold_crossed": 0, "delete_or_bucket_while_pending": 0, "between": 0, "max_pending_rows": 0}
        self.i = 0

    def start(self, runner, L0):
        self.runner = runner
        self.Ls[0] = L0
        self.tracer = stores.Tracer(runner.ds, self.on_statement)
        d = self.obs.current()
        if d != L0:
            raise Violation(f"{self.backend}: a freshly opened store is not durable: {crash.diff_count(d, L0)} rows differ")

    def on_statement(self, sql):
        self.stmt += 1
        self.points += 1
        d = self.obs.current()
        if not self.seen or self.seen[-1][1] is not d:
            self.seen.append((self.stmt, d))

    def stop(self):
        self.tracer.stop()
        self.obs.close()

    def _match(self, D, i):
        """smallest rank >= self.rank at which D is explained: 2j = exactly L_j, 2j-1 = strictly between L_{j-1} and L_j."""
        r = self.rank
        while r <= 2 * i:
            j = (r + 1) // 2
            if r % 2 == 0:
                if j in self.Ls and D == self.Ls[j]:
                    return r
            else:
                if j - 1 in self.Ls and j in self.Ls and D != self.Ls[j] and crash.between(D, self.Ls[j - 1], self.Ls[j]):
                    return r
            r += 1
        return None

    def on_return(self, i, op, kind, L):
        be = self.backend
        self.i = i
        self.Ls[i] = L
        self.kinds[i] = kind
        self.diffs[i] = crash.diff_count(self.Ls[i - 1], L)
        if kind in ("read", "rejected") and self.diffs[i]:
            raise Violation(
                f"{be}: operation {i} {json.dumps(op)} ({'a read' if kind == 'read' else 'an operation that was rejected with an exception'}) changed {self.diffs[i]} rows of the "
                f"writer's own view: effects of earlier completed writes were lost",
                key="rejected_op_lost_writes",
            )
        if kind == "rejected":
            self.flags["rejected_ops"] = self.flags.get("rejected_ops", 0) + 1
        pending_before = sum(self.diffs.get(k, 0) for k in range(self.rank // 2 + 1, i))
        if pending_before and kind in ("delete", "create_bucket", "update_bucket", "delete_bucket"):
            self.flags["delete_or_bucket_while_pending"] += 1
        dret = self.obs.current()
        obs = list(self.seen)
        if not obs or obs[-1][1] is not dret:
            obs.append((None, dret))
        self.seen = [(self.stmt, dret)]
        for stmt, D in obs:
            r = self._match(D, i)
            where = f"statement boundary #{stmt}" if stmt is not None else "return"
            if r is None:
                near = max(self.Ls)
                raise Violation(
                    f"{be}: at {where} of operation {i} {json.dumps(op)} a crash would leave a state that is no prefix of the history: "
                    f"{crash.diff_count(D, self.Ls[i - 1])} rows differ from the state before the operation, {crash.diff_count(D, L)} from the state after it "
                    f"(durable so far: operation {self.rank // 2})",
                    key="not_a_prefix",
                )
            if r % 2 == 1:
                j = (r + 1) // 2
                self.flags["between"] += 1
                if be == "sqlite" and self.kinds.get(j) in crash.SINGLE | crash.BUCKET_LEVEL:
                    raise Violation(f"{be}: operation {j} ({self.kinds.get(j)}) was split: at {where} of operation {i} only part of it is durable", key="split")
            if r // 2 > self.rank // 2 and kind in crash.SINGLE | {"bulk"} and pending_before:
                self.flags["threshold_crossed"] += 1  # an event write itself triggered the flush of earlier buffered writes
            self.rank = r
        # at a return the latest operation whose state equals D is the durable one (states can recur: insert then delete)
        for j in range(i, self.rank // 2, -1):
            if j in self.Ls and dret == self.Ls[j]:
                self.rank = 2 * j
                break
        durable = self.rank // 2
        exact = self.rank % 2 == 0 and durable == i
        if kind in crash.BUCKET_LEVEL and not exact:
            raise Violation(f"{be}: bucket operation {i} {json.dumps(op)} ({kind}) returned but is not durable (durable up to operation {durable})", key="bucket_op_not_durable")
        if be == "peewee" and kind != "read" and not exact:
            raise Violation(f"{be}: operation {i} {json.dumps(op)} returned but is not durable on the auto-committing store", key="peewee_not_durable")
        pending = sum(self.diffs.get(k, 0) for k in range(durable + 1, i + 1))
        self.flags["max_pending_rows"] = max(self.flags["max_pending_rows"], pending)
        if be == "sqlite" and pending > TAIL:
            kinds = [self.kinds[k] for k in range(durable + 1, i + 1)]
            raise Violation(
                f"{be}: after operation {i} returned, {pending} row changes of operations {durable + 1}..{i} are not durable (limit ~50, alarm {TAIL}); pending kinds: "
                f"{ {k: kinds.count(k) for k in set(kinds)} }",
                key="unbounded_tail_deletes" if set(kinds) == {"delete"} else "unbounded_tail",
            )
        for k in [k for k in self.Ls if k < durable - 1]:
            del self.Ls[k]


def run_case(case):
    be = case["backend"]
    path = env.fresh_path(".db")
    orc = Oracle(be, path)
    r = None
    try:
        with sut(f"{be}: running the history"):
            r = crash.Runner(be, path, hooks=orc)
            r.run(case["ops"])
    finally:
        try:
            orc.stop()
        except Exception:
            pass
        if r is not None:
            r.close()
        env.rm(path)
    f = orc.flags
    classes = [be] + [k for k in ("threshold_crossed", "delete_or_bucket_while_pending", "between", "rejected_ops") if f.get(k)]
    if be == "sqlite":
        nt = f["threshold_crossed"] > 0 and f["delete_or_bucket_while_pending"] > 0
    else:  # nothing is ever pending on the auto-committing store: the interesting case is an operation observed half-done
        nt = f["between"] > 0
    return {"nontrivial": nt, "classes": classes, "evals": orc.points}


# ---------------------------------------------------------------------------
# real process deaths


def extra_phases(tier, seed, jobs):
    tasks = []
    n_hist = 16 if tier == "quick" else 160
    for h in range(n_hist):
        tasks.append({"seed": seed * 10007 + h, "backend": ["sqlite", "peewee"][h % 2], "kills": 6 if tier == "quick" else 10, "timer": tier == "thorough" and h % 3 == 0, "n_ops": 60 if tier == "quick" else 120})
    return [("kills", "phase_kills", tasks)]


class _Collect:
    """in-process reference run: D at every statement index."""

    def __init__(self, path):
        self.obs = crash.Observer(path)
        self.at = []  # D before statement k (k = index in this list)
        self.rets = []  # (statements executed so far, D) at every operation return

    def start(self, runner, L0):
        self.tracer = stores.Tracer(runner.ds, self.on_statement)

    def on_statement(self, sql):
        self.at.append(self.obs.current())

    def on_return(self, i, op, kind, L):
        self.rets.append((len(self.at), self.obs.current(), dict(L)))


class _KillAt:
    def __init__(self, k, mode):
        self.k = k
        self.mode = mode
        self.n = 0

    def start(self, runner, L0):
        self.tracer = stores.Tracer(runner.ds, self.on_statement)

    def on_statement(self, sql):
        if self.n == self.k:
            if self.mode == "sigkill":
                os.kill(os.getpid(), signal.SIGKILL)
            elif self.mode == "_exit":
                os._exit(0)
        self.n += 1

    def on_return(self, i, op, kind, L):
        pass


def _child(backend, path, ops, hooks):
    try:
        r = crash.Runner(backend, path, hooks=hooks)
        r.run(ops)
    except SystemExit:
        sys.exit(0)
    except BaseException:
        os._exit(3)
    os._exit(0)


def _reference(backend, ops):
    path = env.fresh_path(".db")
    col = _Collect(path)
    r = crash.Runner(backend, path, hooks=col)
    try:
        r.run(ops)
        final = col.obs.current()
    finally:
        col.tracer.stop()
        col.obs.close()
        r.close()
        env.rm(path)
    _reference.rets = col.rets
    return col.at, final


def _kill_once(backend, ops, k, mode, at, disk, seed=None, n_ops=None, rets=None):
    path = os.path.join(disk, f"k{os.getpid()}-{k}-{mode}.db")
    expected = at[k]
    if mode == "exit":
        import subprocess

        envv = dict(os.environ, VERIF_REPO=env.REPO, PYTHONPATH=env.VERIF, PYTHONHASHSEED="0")
        p = subprocess.run([sys.executable, "-B", "-m", "vlib.crash_child", backend, path, str(seed), str(n_ops), str(k)], env=envv, cwd=env.VERIF, stdout=subprocess.PIPE, stderr=subprocess.STDOUT)
        if p.returncode != 0:
            raise RuntimeError(f"crash child failed: {p.stdout[-800:].decode(errors='replace')}")
        ret = next((r for r in rets if r[0] >= k), rets[-1])
        expected = ret[1]
        flushed = ret[2]  # a store may also flush what it has buffered when the interpreter exits normally: then the file holds the writer's own view at that operation boundary
    else:
        pid = os.fork()
        if pid == 0:
            _child(backend, path, ops, _KillAt(k, mode))
        os.waitpid(pid, 0)
    try:
        got = stores.fresh_dump(path)
    finally:
        env.rm(path)
    if got != expected and not (mode == "exit" and got == flushed):
        raise Violation(
            f"{backend}: process died ({mode}) before SQL statement #{k}; the reopened file differs from the in-process observation in {crash.diff_count(got, at[k])} rows",
            key="real_crash_mismatch",
        )


def _timer_once(backend, ops, delay, allD, disk):
    path = os.path.join(disk, f"t{os.getpid()}-{int(delay * 1e6)}.db")
    pid = os.fork()
    if pid == 0:
        _child(backend, path, ops, None)
    time.sleep(delay)
    try:
        os.kill(pid, signal.SIGKILL)
    except ProcessLookupError:
        pass
    os.waitpid(pid, 0)
    try:
        if not os.path.exists(path):
            return "too_early"
        try:
            got = stores.fresh_dump(path)
        except sqlite3.OperationalError:
            return "too_early"
    finally:
        env.rm(path)
    h = hash(frozenset(got.items()))
    if h not in allD:
        raise Violation(f"{backend}: process killed {delay:.4f}s into the history; the reopened file ({len(got)} rows) is none of the states observed at statement boundaries", key="timer_crash_mismatch")
    return "ok"


def phase_kills(task):
    import random

    st_ = Stats()
    be = task["backend"]
    ops = crash.seeded_history(task["seed"], task["n_ops"])
    rnd = random.Random(task["seed"] ^ 0x5EED)
    at, final = _reference(be, ops)
    rets = _reference.rets
    disk = env.disk_scratch()
    n = len(at)
    case = {"backend": be, "seed": task["seed"], "n_ops": task["n_ops"]}
    try:
        for _ in range(task["kills"]):
            k = rnd.randrange(n)
            mode = rnd.choice(["sigkill", "sigkill", "_exit", "exit"])
            try:
                _kill_once(be, ops, k, mode, at, disk, task["seed"], task["n_ops"], rets)
            except Violation as v:
                st_.failure = {"kind": "kill", "case": dict(case, k=k, mode=mode), "message": v.msg}
                return st_
            st_.evals += 1
            st_.classes[f"{be}_{mode}"] += 1
            st_.nontrivial.add(case_hash([case, k, mode]))
        if task["timer"]:
            allD = {hash(frozenset(d.items())) for d in at} | {hash(frozenset(final.items()))}
            t0 = time.time()
            pid = os.fork()
            if pid == 0:
                _child(be, os.path.join(disk, f"probe{os.getpid()}.db"), ops, None)
            os.waitpid(pid, 0)
            total = time.time() - t0
            for f in os.listdir(disk):
                env.rm(os.path.join(disk, f))
            for _ in range(6):
                delay = rnd.uniform(0.05, 1.0) * total
                try:
                    res = _timer_once(be, ops, delay, allD, disk)
                except Violation as v:
                    st_.failure = {"kind": "timer", "case": dict(case, delay=delay), "message": v.msg}
                    return st_
                st_.evals += 1
                st_.classes[f"{be}_timer_{res}"] += 1
    finally:
        import shutil

        shutil.rmtree(disk, ignore_errors=True)
    st_.notes["statement_boundaries_in_reference_runs"] = n
    return st_


def replay_kill(p):
    ops = crash.seeded_history(p["seed"], p["n_ops"])
    at, _ = _reference(p["backend"], ops)
    disk = env.disk_scratch()
    _kill_once(p["backend"], ops, p["k"], p["mode"], at, disk, p["seed"], p["n_ops"], _reference.rets)


def replay_timer(p):
    ops = crash.seeded_history(p["seed"], p["n_ops"])
    at, final = _reference(p["backend"], ops)
    allD = {hash(frozenset(d.items())) for d in at} | {hash(frozenset(final.items()))}
    disk = env.disk_scratch()
    for _ in range(3):
        _timer_once(p["backend"], ops, p["delay"], allD, disk)
