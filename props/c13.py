"""C13 — events normalise to UTC milliseconds and survive JSON round trips."""
import json
from datetime import datetime, timedelta, timezone
from fractions import Fraction

from hypothesis import strategies as st

from vlib import gen
from vlib.runner import Stats, Violation, plain_stack, sut

ID = "C13"
DETERMINISTIC = True  # pure in-memory functions judged by a pure oracle: see runner (a failure seen once counts)
RULE = (
    "case = instant (int us 1970..2100, boundary-biased) x UTC offset (whole minutes in [-14h,+14h]) x presentation "
    "(aware datetime at a fixed offset | aware datetime in a real DST-observing zone from zoneinfo, instants biased to the repeated/skipped hour so that fold=1 occurs | ISO-8601 spelling: T/space, 0/3/6 fraction digits, Z, +hh:mm, +hhmm; minimal fractions such as .5 or .87), given to the constructor and by assignment to an existing event; x duration (int s | float s | timedelta, "
    "negative allowed, |d| <= 1e7 s) x JSON data (one case in four with a value nested 120, 600 or 900 levels deep: class 'deeply_nested_data') x id (None|int|str). Oracle: integer-arithmetic ms floor, exact-rational duration "
    "rounding (<= 1/2 us), schema validation with date-time format checking, equality+id after JSON and Event(**event) round trips. "
    "Non-trivial = (us % 1000 != 0 and offset != 0) or a float duration that is not an exact multiple of 1 us. Distinct by SHA-1 of the case. "
    "Extra phase: the ms floor is enumerated for all 10^6 microsecond values at fixed seconds (classes 'floor:*')."
)
ASSUMPTIONS = [
    "UTC offsets are whole minutes (what ISO-8601 strings can carry)",
    "float durations are compared against the exact rational value of the float, tolerance 1/2 us + 1e-6 us (round-to-nearest in timedelta, with slack for its float multiply)",
    "durations are bounded by 1e7 s in magnitude",
]
EXHAUSTIVE_NOTE = "ms floor checked for every microsecond value 0..999999 at each second listed under notes['floor.seconds']"


def budget(tier):
    return 1500 if tier == "quick" else 40000


def _durations():
    ints = st.one_of(st.integers(-5, 5), st.integers(-(10**7), 10**7))
    floats = st.one_of(
        st.sampled_from([0.0, 0.1, 0.001, 1e-6, 5e-7, 1.5e-6, 2.5e-6, 0.3, 1 / 3, 2 / 3, 0.9999995, 1.0000005, 86399.9999995, 1e-9, -0.1, -1e-6]),
        st.floats(min_value=-1e7, max_value=1e7, allow_nan=False, allow_infinity=False),
        st.floats(min_value=0, max_value=100, allow_nan=False),
        st.integers(0, 10**13).map(lambda us: us / 10**6),
    )
    tds = gen.durations_us(negative=True)
    return st.one_of(
        ints.map(lambda v: {"kind": "int", "value": v}),
        floats.map(lambda v: {"kind": "float", "value": v}),
        tds.map(lambda v: {"kind": "td", "value": v}),
    )


ZONES = ["Europe/Berlin", "America/New_York", "Australia/Lord_Howe", "Asia/Kolkata", "America/St_Johns", "Pacific/Apia", "Europe/London", "Europe/Lisbon", "UTC"]
# UTC instants (s) of DST transitions: the repeated / skipped local hour is where `fold` matters
TRANSITIONS = [1635642000, 1616893200, 1636264800, 1615705200, 1617463800, 1633188600, 1635642000 + 365 * 86400, 1667091600, 972781200, 2540163600]


def _zone_instants():
    near = st.tuples(st.sampled_from(TRANSITIONS), st.integers(-7200, 7200), gen.us_parts()).map(lambda t: (t[0] + t[1]) * 10**6 + t[2])
    return st.one_of(near, near, gen.instants())


def strategy(tier):
    return st.one_of(_plain(), _plain(), _plain().flatmap(lambda c: st.tuples(_zone_instants(), st.sampled_from(ZONES)).map(lambda t: dict(c, present="zone", us=t[0], zone=t[1]))))


def _plain():
    return gen.stamps().flatmap(lambda so: _plain_at(*so))


def _plain_at(us, off):
    return st.fixed_dictionaries(
        {
            "us": st.just(us),
            "off": st.just(off),
            "present": st.sampled_from(["dt", "iso"]),
            "style": st.integers(0, 31),
            "dur": _durations(),
            "data": gen.json_data(8, surrogates=True),
            # valid JSON nested far deeper than a person writes (only the depth is drawn; the value is built in _full_data)
            "deep": st.sampled_from([0] * 9 + [120, 600, 900]),
            "id": st.one_of(st.none(), st.integers(0, 2**40), gen.texts(4)),
        }
    )


_schema = None


def _validate(d):
    global _schema
    import jsonschema
    from aw_core.schema import get_json_schema

    if _schema is None:
        _schema = get_json_schema("event")
    jsonschema.validate(d, _schema, format_checker=jsonschema.FormatChecker())


def _expected_us(us):
    return gen.floor_ms(us)


def _check_ts(e, us, what):
    ts = e.timestamp
    if not isinstance(ts, datetime) or ts.tzinfo is None:
        raise Violation(f"{what}: timestamp is not an aware datetime: {ts!r}")
    if ts.utcoffset() != timedelta(0):
        raise Violation(f"{what}: timestamp not in UTC: {ts!r}")
    # "UTC-aware" means the zone is UTC, not a zone that merely happens to be at +00:00 at this instant (London in winter)
    for probe in (datetime(2021, 1, 15, 12), datetime(2021, 7, 15, 12)):
        if ts.tzinfo.utcoffset(probe) != timedelta(0):
            raise Violation(f"{what}: timestamp is held in the zone {ts.tzinfo!r}, which is not UTC (offset {ts.tzinfo.utcoffset(probe)} on {probe.date()}): {ts!r}")
    got = gen.to_us(ts)
    if got != _expected_us(us):
        raise Violation(f"{what}: instant {us} us should floor to {_expected_us(us)} us, event holds {got} us")


def _full_data(case):
    data = json.loads(json.dumps(case["data"]))
    n = case.get("deep") or 0
    if n:
        x = "leaf"
        for i in range(n):
            x = [x, i] if i % 2 else {"k": x}
        data["blob"] = x
    return data


def run_case(case):
    from aw_core.models import Event

    expdata = _full_data(case)

    us, off = case["us"], case["off"]
    if case["present"] == "dt":
        tsin = gen.dt_at(us, off)
    elif case["present"] == "zone":
        # an aware datetime in a real (DST-observing) zone; astimezone sets `fold` in the repeated hour
        try:
            import zoneinfo

            tsin = gen.dt_utc(us).astimezone(zoneinfo.ZoneInfo(case["zone"]))
        except Exception:
            tsin = gen.dt_at(us, off)
        off = int(tsin.utcoffset().total_seconds() // 60)
    else:
        tsin = gen.iso_spelling(us, off, case["style"])
    dk, dv = case["dur"]["kind"], case["dur"]["value"]
    if dk == "td":
        durin = timedelta(microseconds=dv)
        exact = Fraction(dv)
    else:
        durin = dv
        exact = Fraction(dv) * 10**6
    data = _full_data(case)
    with sut("constructing Event"), plain_stack(bool(case.get("deep"))):
        e = Event(id=case["id"], timestamp=tsin, duration=durin, data=data)
    _check_ts(e, us, f"Event(timestamp={tsin!r})")
    # ... however it is given: also by assignment to an existing event
    with sut("event.timestamp = ..."), plain_stack(bool(case.get("deep"))):
        ea = Event(id=case["id"], timestamp=gen.dt_utc(86400 * 10**6), duration=durin, data=_full_data(case))
        ea.timestamp = tsin
    _check_ts(ea, us, f"event.timestamp = {tsin!r}")
    if not (ea == e):
        raise Violation(f"an event whose timestamp was assigned differs from one constructed with it: {repr(dict(ea))[:3000]} vs {repr(dict(e))[:3000]}")
    d = e.duration
    if not isinstance(d, timedelta):
        raise Violation(f"duration is not a timedelta: {d!r}")
    got = gen.td_us(d)
    if abs(Fraction(got) - exact) > Fraction(1, 2) + Fraction(1, 10**6):
        raise Violation(f"duration {dk} {dv!r} = {float(exact)} us held as {got} us")
    if e.data != expdata or e.id != case["id"]:
        raise Violation("data or id changed by construction")
    # JSON form validates against the published schema
    with sut("to_json_dict"), plain_stack(bool(case.get("deep"))):
        jd = e.to_json_dict()
    try:
        _validate(jd)
    except Exception as ex:
        raise Violation(f"JSON form does not validate against the event schema: {type(ex).__name__}: {str(ex)[:300]}; json={repr(jd)[:3000]}")
    if not isinstance(jd.get("timestamp"), str) or not isinstance(jd.get("duration"), (int, float)):
        raise Violation(f"JSON form has wrong field types: {jd!r}")
    # round trips
    with sut("Event(**json.loads(to_json_str()))"), plain_stack(bool(case.get("deep"))):
        e2 = Event(**json.loads(e.to_json_str()))
    with sut("Event(**event)"), plain_stack(bool(case.get("deep"))):
        e3 = Event(**e)
    for name, x in (("JSON round trip", e2), ("Event(**event)", e3)):
        if not (x == e):
            raise Violation(f"{name} gives a different event: {repr(dict(x))[:3000]} vs {repr(dict(e))[:3000]}")
        if x.id != e.id:
            raise Violation(f"{name} changes the id: {x.id!r} vs {e.id!r}")
        if gen.to_us(x.timestamp) != _expected_us(us) or gen.td_us(x.duration) != got or x.data != expdata:
            raise Violation(f"{name} changed a field: {repr(dict(x))[:3000]} vs {repr(dict(e))[:3000]}")
        _check_ts(x, us, name)
    nontrivial = (us % 1000 != 0 and off != 0) or (dk == "float" and exact.denominator != 1)
    classes = [case["present"], "dur_" + dk]
    if case["present"] == "zone" and getattr(tsin, "fold", 0):
        classes.append("zone_fold_1")
    if us % 1000:
        classes.append("sub_ms")
    if off:
        classes.append("offset_nonzero")
    if case.get("deep"):
        classes.append("deeply_nested_data")
    if dk != "td" and dv < 0 or dk == "td" and dv < 0:
        classes.append("negative_duration")
    return {"nontrivial": nontrivial, "classes": classes, "evals": 1}


# ---------------------------------------------------------------------------
# exhaustive millisecond floor


def extra_phases(tier, seed, jobs):
    seconds = [0, 2**31 - 1, gen.MAX_S - 1]
    if tier == "thorough":
        seconds += [1, 59, 2**30, 2**31, 2**32 - 1, 2**32, 951782400, 1483228799, 1600000000, 1700000000, 1234567890, 3000000000, 4000000000]
    tasks = []
    shards = 4 if tier == "quick" else 2
    for i, s in enumerate(seconds):
        off = [0, 330, -840, 840, -570, 1][i % 6]
        step = 10**6 // shards
        for k in range(shards):
            tasks.append({"s": s, "lo": k * step, "hi": (k + 1) * step, "off": off, "mode": "dt"})
    # ISO strings: slower parser, one second value (thorough: three)
    for s in seconds[: (1 if tier == "quick" else 3)]:
        for k in range(8):
            tasks.append({"s": s, "lo": k * 125000, "hi": (k + 1) * 125000, "off": 0 if s == 0 else 345, "mode": "iso"})
    return [("floor", "phase_floor", tasks)]


def _floor_one(Event, s, u, off, mode):
    us = s * 10**6 + u
    tsin = gen.dt_at(us, off) if mode == "dt" else gen.iso_spelling(us, off, 2)
    e = Event(timestamp=tsin)
    ts = e["timestamp"]
    if gen.to_us(ts) != gen.floor_ms(us) or ts.utcoffset() != timedelta(0):
        raise Violation(f"instant {us} us given as {tsin!r} held as {ts!r}, expected {gen.floor_ms(us)} us UTC")


def phase_floor(task):
    from aw_core.models import Event

    st_ = Stats()
    s, off, mode = task["s"], task["off"], task["mode"]
    if s * 10**6 + task["lo"] + off * 60 * 10**6 < 0:
        off = 0
    n = 0
    for u in range(task["lo"], task["hi"]):
        try:
            with sut("Event(timestamp=...)"):
                _floor_one(Event, s, u, off, mode)
        except Violation as v:
            st_.failure = {"kind": "floor", "case": {"s": s, "u": u, "off": off, "mode": mode}, "message": v.msg}
            break
        n += 1
    st_.evals = n
    st_.classes[mode + "_values"] = n
    st_.notes["seconds"] = 0
    st_.notes["values_checked"] = n
    return st_


def replay_floor(p):
    from aw_core.models import Event

    with sut("Event(timestamp=...)"):
        _floor_one(Event, p["s"], p["u"], p["off"], p["mode"])
