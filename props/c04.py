"""C04 — operations addressed to one bucket never change any other bucket."""
import json

from hypothesis import strategies as st

from vlib import gen, stores
from vlib.runner import Violation, sut

ID = "C04"
RULE = (
    "case = backend x 2..3 populated buckets on one store x history of 1..20 operations on a chosen bucket A with unrestricted arguments: event ids that are "
    "live in A, live in another bucket, dead, never issued, negative or huge; events whose timestamps/end instants are copied from events of other buckets; "
    "operations insert (with/without id), insert_many (with/without ids, or with an unserialisable event so that the call is rejected half-way), replace and replace_last (the event handed over may itself carry any id, another bucket's included), delete, update_bucket(A), delete_bucket(A)+re-create; interleaved with the harness's own inserts into OTHER buckets, and with no read in between about half the steps, so that those inserts are still buffered when the next operation on A runs. Oracle: pure "
    "frame condition, no semantic model: the API dump (metadata + sorted (id, instant, duration, data)) of every bucket other than A is identical before and after "
    "each checked stretch of operations (single operations about half the time); an exception counts as 'rejected' and is fine provided the frame still holds. Non-trivial = an operation used an id that is live in "
    "another bucket, or an event whose end instant equals that of an event in another bucket."
)
ASSUMPTIONS = ["ids are integers", "an operation that raises is 'rejected'; the frame must still hold afterwards"]
BASE_US = 1_650_000_000_000_000


def budget(tier):
    return 300 if tier == "quick" else 5000


def _ev():
    return st.fixed_dictionaries({"slot": st.integers(0, 7), "dur_s": st.sampled_from([0, 1, 1, 2, 3]), "data": st.sampled_from([{"k": "A"}, {"k": "B"}, {}])})


def _idsel():
    # symbolic id: resolved against the live sets while the history runs
    return st.one_of(
        st.tuples(st.just("own"), st.integers(0, 20)),
        st.tuples(st.just("foreign"), st.integers(0, 20)),
        st.tuples(st.just("foreign"), st.integers(0, 20)),
        st.tuples(st.just("dead"), st.integers(0, 20)),
        st.tuples(st.just("abs"), st.sampled_from([-1, 0, 1, 2, 3, 10**6, 2**62, 2**63 - 1])),
    ).map(list)


@st.composite
def strategy(draw, tier="quick"):
    nb = draw(st.integers(2, 3))
    init = [draw(st.lists(_ev(), min_size=1, max_size=5)) for _ in range(nb)]
    ops = []
    for _ in range(draw(st.integers(1, 20))):
        kind = draw(st.sampled_from(["insert", "insert_id", "insert_many", "replace", "replace", "replace_last", "replace_last", "delete", "delete", "update_bucket", "recreate", "other_insert", "other_insert", "insert_many_bad", "newest_cycle"]))
        op = {"op": kind, "chk": draw(st.booleans())}
        if kind in ("other_insert", "insert_many_bad", "newest_cycle"):
            op["e"] = draw(_ev())
            op["k"] = draw(st.integers(0, 5))
        if kind in ("insert", "replace_last"):
            op["e"] = draw(_ev())
            op["copy_from"] = draw(st.one_of(st.none(), st.integers(0, 20)))
            if kind == "replace_last":  # the event handed over may itself carry an id (it was read from somewhere): any id, another bucket's included
                op["carry"] = draw(st.one_of(st.none(), st.none(), _idsel()))
        elif kind == "insert_id":
            op["e"] = draw(_ev())
            op["id"] = draw(_idsel())
        elif kind == "insert_many":
            op["items"] = draw(st.lists(st.fixed_dictionaries({"e": _ev(), "id": st.one_of(st.none(), _idsel())}), max_size=4))
        elif kind == "replace":
            op["e"] = draw(_ev())
            op["id"] = draw(_idsel())
            op["copy_from"] = draw(st.one_of(st.none(), st.integers(0, 20)))
            op["carry"] = draw(st.one_of(st.none(), st.none(), _idsel()))
        elif kind == "delete":
            op["id"] = draw(_idsel())
        elif kind == "update_bucket":
            op["fields"] = draw(st.dictionaries(st.sampled_from(["type_id", "client", "hostname", "name"]), st.sampled_from(["x", "y"]), min_size=1, max_size=2))
        ops.append(op)
    return {"backend": draw(st.sampled_from(stores.BACKENDS)), "init": init, "a": draw(st.integers(0, nb - 1)), "ops": ops}


def known_key(case, v):
    return v.key


def _mk(Event, spec, eid=None, copy=None):
    us = BASE_US + spec["slot"] * 10**6
    dur = spec["dur_s"] * 10**6
    if copy is not None:
        us, end = copy
        dur = max(0, end - us) if spec["dur_s"] else 0
        if spec["dur_s"] == 0:
            us = end  # zero-length event exactly at a foreign end instant
    return stores.mk_event(Event, {"us": us, "off": 0, "dur_us": dur, "data": spec["data"]}, eid)


def run_case(case):
    from aw_core.models import Event

    be = case["backend"]
    nb = len(case["init"])
    names = [f"bk{i}" for i in range(nb)]
    A = names[case["a"]]
    flags = {"foreign_id": 0, "end_coincides": 0, "rejected": 0}
    with stores.store(be) as ds:
        with sut(f"{be}: setup"):
            for n, evs in zip(names, case["init"]):
                b = stores.create_bucket(ds, n)
                for e in evs:
                    b.insert(_mk(Event, e))
            if be == "sqlite":
                ds.storage_strategy.commit()
        dead = []
        # `before` is what the other buckets must read back as: taken through the API only at checked steps (API reads
        # force a commit on the SQLite store; between checks nothing reads, so writes to other buckets stay buffered)
        # and updated by the harness's own inserts into other buckets
        with sut(f"{be}: initial dump"):
            before = stores.api_dump(ds, exclude={A})
            own = sorted(e.id for e in ds[A].get(limit=-1))
        since = 0
        for step, op in enumerate(case["ops"]):
            foreign = sorted(i for n, (_, evs) in before.items() for (i, _, _, _) in evs)
            foreign_iv = sorted((ts, ts + du) for n, (_, evs) in before.items() for (_, ts, du, _) in evs)

            def resolve(sel):
                kind, k = sel
                if kind == "own" and own:
                    return own[k % len(own)]
                if kind == "foreign" and foreign:
                    fid = foreign[k % len(foreign)]
                    if fid not in own:
                        flags["foreign_id"] += 1
                    return fid
                if kind == "dead" and dead:
                    return dead[k % len(dead)]
                if kind == "abs":
                    return k
                return 10**7 + k

            def cp(k):
                if k is None or not foreign_iv:
                    return None
                return foreign_iv[k % len(foreign_iv)]

            def coincide(ev):
                end = gen.to_us(ev.timestamp) + gen.td_us(ev.duration)
                if any(end == z for _, z in foreign_iv):
                    flags["end_coincides"] += 1

            kind = op["op"]
            if kind == "other_insert":
                others = [n for n in names if n != A]
                tgt = others[op["k"] % len(others)]
                with sut(f"{be}: insert into another bucket ({tgt})"):
                    ev = _mk(Event, op["e"])
                    r = ds[tgt].insert(ev)
                before[tgt][1].append((r.id, gen.to_us(ev.timestamp), gen.td_us(ev.duration), json.dumps(ev.data, sort_keys=True)))
                before[tgt][1].sort()
                flags["pending_in_other_bucket"] = flags.get("pending_in_other_bucket", 0) + 1
                continue
            try:
                b = ds[A]
                if kind == "newest_cycle":
                    # A's newest event is rewritten, deleted, another bucket receives an event, A's newest is rewritten again
                    far = stores.mk_event(Event, {"us": BASE_US + (900 + step) * 10**6, "off": 0, "dur_us": 10**6, "data": {"k": "top"}})
                    top = b.insert(far)
                    b.replace_last(stores.mk_event(Event, {"us": BASE_US + (900 + step) * 10**6, "off": 0, "dur_us": 2 * 10**6, "data": {"k": "top2"}}))
                    b.delete(top.id)
                    dead.append(top.id)
                    others = [n for n in names if n != A]
                    tgt = others[op.get("k", 0) % len(others)]
                    ev2 = _mk(Event, op["e"])
                    r2 = ds[tgt].insert(ev2)
                    before[tgt][1].append((r2.id, gen.to_us(ev2.timestamp), gen.td_us(ev2.duration), json.dumps(ev2.data, sort_keys=True)))
                    before[tgt][1].sort()
                    b.replace_last(_mk(Event, op["e"]))
                elif kind == "insert_many_bad":
                    # a bulk insert that must be rejected half-way: the second event cannot be serialised
                    good = _mk(Event, op["e"])
                    bad = _mk(Event, op["e"])
                    bad.data["blob"] = b"\x00not json"
                    b.insert([good, bad] if op.get("k", 0) % 2 else [bad, good])
                elif kind == "insert":
                    ev = _mk(Event, op["e"], None, cp(op["copy_from"]))
                    coincide(ev)
                    b.insert(ev)
                elif kind == "insert_id":
                    b.insert(_mk(Event, op["e"], resolve(op["id"])))
                elif kind == "insert_many":
                    b.insert([_mk(Event, it["e"], None if it["id"] is None else resolve(it["id"])) for it in op["items"]])
                elif kind == "replace":
                    ev = _mk(Event, op["e"], None if op.get("carry") is None else resolve(op["carry"]), cp(op["copy_from"]))
                    coincide(ev)
                    b.replace(resolve(op["id"]), ev)
                elif kind == "replace_last":
                    ev = _mk(Event, op["e"], None if op.get("carry") is None else resolve(op["carry"]), cp(op["copy_from"]))
                    coincide(ev)
                    b.replace_last(ev)
                elif kind == "delete":
                    i = resolve(op["id"])
                    b.delete(i)
                    dead.append(i)
                elif kind == "update_bucket":
                    ds.update_bucket(A, **op["fields"])
                elif kind == "recreate":
                    dead.extend(own)
                    ds.delete_bucket(A)
                    if op.get("chk"):  # sometimes another bucket is created before A comes back (row ids get re-issued)
                        extra = f"extra{step}"
                        stores.create_bucket(ds, extra)
                        names.append(extra)
                        before[extra] = (stores.norm_meta(ds[extra].metadata()), [])
                    stores.create_bucket(ds, A)
            except Exception as ex:  # rejected: fine, provided the frame holds
                flags["rejected"] += 1
                if A not in _safe_buckets(ds):
                    try:
                        stores.create_bucket(ds, A)
                    except Exception:
                        pass
            if not op.get("chk", True) and step != len(case["ops"]) - 1:
                continue
            with sut(f"{be}: dump after step {step} ({kind})"):
                after = stores.api_dump(ds, exclude={A})
                own = sorted(e.id for e in ds[A].get(limit=-1)) if A in ds.buckets() else []
            first, since = since, step + 1
            if after != before:
                diffs = []
                for n in sorted(set(before) | set(after)):
                    if before.get(n) != after.get(n):
                        bm, bev = before.get(n, (None, []))
                        am, aev = after.get(n, (None, []))
                        diffs.append(f"{n}: lost {[x for x in bev if x not in aev]} gained {[x for x in aev if x not in bev]}" + ("" if bm == am else f" metadata {bm} -> {am}"))
                key = None
                if kind in ("replace", "insert_many", "insert_id"):
                    key = f"{be}_{'upsert' if kind != 'replace' else 'replace'}_foreign_id"
                blamed = f"step {step} {json.dumps(op)}" if first == step else f"steps {first}..{step} {json.dumps(case['ops'][first:step + 1])}"
                raise Violation(f"{be}: {blamed} addressed to {A} changed other buckets: {'; '.join(diffs)}", key=key)
            before = after
    classes = [be] + [k for k, v in flags.items() if v]
    return {"nontrivial": flags["foreign_id"] > 0 or flags["end_coincides"] > 0, "classes": classes, "evals": len(case["ops"])}


def _safe_buckets(ds):
    try:
        return ds.buckets()
    except Exception:
        return {}
