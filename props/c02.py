"""C02 — every backend behaves like one simple per-bucket event list under any history."""
import json
from collections import Counter

from hypothesis import strategies as st

from vlib import gen, stores
from vlib.runner import Stats, Violation, case_hash, sut

ID = "C02"
RULE = (
    "case = history of 1..40 operations over 1..2 buckets drawn with per-case weights from insert, insert_many (0..6), upsert_many (bulk list mixing id-less "
    "events with events carrying distinct live ids of that bucket), replace(live id), replace_last (non-empty bucket), delete(live id | never-issued id); event "
    "instants from a 12-slot grid and durations from {0,1,2,3 s} (occasionally 1 d, 25 h, 30 d) so equal timestamps, equal end instants and zero-length events are frequent; data from {A,B,C} "
    "plus occasional rich JSON. The same history runs on memory, sqlite and peewee. Oracle: reference list model per bucket with learnt ids; after EVERY "
    "operation get(-1) as a multiset of (id, instant, duration, data) == model, ids distinct, get_by_id agrees for every live id and is None for dead / foreign "
    "ids, get_eventcount() == model size; the limit-1 read before a replace_last must return an event with the greatest timestamp and replace_last must rewrite exactly that event; id-erased contents agree "
    "across backends for as long as their limit-1 reads agreed. Non-trivial = a replace_last or upsert_many after a delete, or after a tie (two live events with "
    "equal timestamp or equal end instant) has arisen."
)
ASSUMPTIONS = [
    "ids passed to replace/upsert are live ids of that bucket; ids passed to delete are live or not live anywhere; replace_last only on non-empty buckets",
    "single insertion of an event that already carries an id is not generated; a bulk list may address the same live id twice (the list model applies the entries in order)",
    "which of several equally-new events a limit-1 read returns is left to the backend; only agreement between that read and replace_last is demanded",
    "return values of delete/replace are not compared",
]
BASE_US = 1_650_000_000_000_000


def budget(tier):
    return 60 if tier == "quick" else 1200


def _spec():
    data = st.one_of(st.sampled_from([{"k": "A"}, {"k": "B"}, {"k": "C"}, {"k": "A"}, {}]), gen.json_data(4, surrogates=True))
    return st.fixed_dictionaries(
        {
            "slot": st.integers(0, 11),
            "dur_s": st.sampled_from([0, 0, 1, 1, 2, 3, 0, 1, 2, 3, 86400, 90000, 30 * 86400]),
            "sub_us": st.sampled_from([0, 0, 0, 1000, 500000]),
            "data": st.one_of(st.sampled_from([{"k": "A"}, {"k": "B"}, {"k": "C"}]), data),
        }
    )


@st.composite
def strategy(draw, tier="quick"):
    nb = draw(st.integers(1, 2))
    w = [draw(st.integers(0, 4)) for _ in range(6)]
    if sum(w) == 0:
        w[0] = 1
    kinds = []
    for name, wt in zip(["insert", "insert_many", "upsert_many", "replace", "replace_last", "delete"], w):
        kinds += [name] * wt
    n = draw(st.integers(1, 40))
    ops = []
    for _ in range(n):
        kind = draw(st.sampled_from(kinds))
        b = draw(st.integers(0, nb - 1))
        if kind == "insert":
            ops.append({"op": kind, "b": b, "e": draw(_spec())})
        elif kind == "insert_many":
            ops.append({"op": kind, "b": b, "es": draw(st.lists(_spec(), max_size=6))})
        elif kind == "upsert_many":
            items = draw(st.lists(st.fixed_dictionaries({"e": _spec(), "k": st.one_of(st.none(), st.integers(0, 30))}), max_size=6))
            ops.append({"op": kind, "b": b, "items": items})
        elif kind == "replace":
            ops.append({"op": kind, "b": b, "k": draw(st.integers(0, 30)), "e": draw(_spec())})
        elif kind == "replace_last":
            ops.append({"op": kind, "b": b, "e": draw(_spec())})
        else:
            ops.append({"op": kind, "b": b, "k": draw(st.integers(0, 30)), "never": draw(st.integers(0, 3)) == 0})
    return {"nb": nb, "ops": ops, "pre": draw(st.integers(0, 2))}  # buckets created (and dropped again) before the case's own: row ids differ from store to store


def _content(spec):
    ts = BASE_US + spec["slot"] * 10**6 + spec["sub_us"]
    return (gen.floor_ms(ts), spec["dur_s"] * 10**6, json.dumps(json.loads(json.dumps(spec["data"])), sort_keys=True))


def _mk(Event, spec, eid=None):
    return stores.mk_event(Event, {"us": BASE_US + spec["slot"] * 10**6 + spec["sub_us"], "off": 0, "dur_us": spec["dur_s"] * 10**6, "data": spec["data"]}, eid)


def known_key(case, v):
    return v.key


class _Run:
    """Executes a history on one backend next to the reference model."""

    def __init__(self, backend, case):
        self.backend = backend
        self.case = case
        self.trace = []  # per step: id-erased contents of all buckets
        self.choices = []  # content of each limit-1 read preceding a replace_last
        self.flags = Counter()

    def fail(self, step, msg, key=None):
        raise Violation(f"{self.backend}: step {step} {json.dumps(self.case['ops'][step]) if step is not None else ''}: {msg}", key=key)

    def run(self):
        from aw_core.models import Event

        be = self.backend
        case = self.case
        with stores.store(be) as ds:
            names = [f"bucket{i}" for i in range(case["nb"])]
            with sut(f"{be}: create_bucket"):
                if case.get("pre", 0) == 1:
                    stores.create_bucket(ds, "earlier")
                if case.get("pre", 0) == 2:  # other names in another order: a bucket id stands for another row than in the store before
                    names = ["bucket1", "bucketX"][: len(names)]
                bs = [stores.create_bucket(ds, n) for n in names]
                if case.get("pre", 0) == 1:  # the first bucket is dropped and created again before the history starts
                    ds.delete_bucket(names[0])
                    bs[0] = stores.create_bucket(ds, names[0])
            model = [dict() for _ in names]  # id -> content tuple
            self.uid = [dict() for _ in names]  # id -> creation order (same on every backend)
            self.nuid = 0
            ever = set()
            after_delete = [False] * len(names)
            tie = [False] * len(names)
            for step, op in enumerate(case["ops"]):
                bi = op["b"]
                b, m = bs[bi], model[bi]
                uid = self.uid[bi]
                live = sorted(m, key=lambda i: uid[i])
                kind = op["op"]
                if kind == "insert":
                    with sut(f"{be}: step {step} insert"):
                        r = b.insert(_mk(Event, op["e"]))
                    if r is None or r.id is None:
                        self.fail(step, "insert returned no id")
                    if r.id in m:
                        self.fail(step, f"insert returned id {r.id} which belongs to a live event")
                    m[r.id] = _content(op["e"])
                    self.nuid += 1
                    uid[r.id] = self.nuid
                elif kind == "insert_many":
                    with sut(f"{be}: step {step} insert_many"):
                        b.insert([_mk(Event, e) for e in op["es"]])
                    self._learn_new(step, b, m, [_content(e) for e in op["es"]], uid)
                elif kind == "upsert_many":
                    used = set()
                    evs, new, upd = [], [], {}
                    for it in op["items"]:
                        if it["k"] is not None and live:
                            eid = live[it["k"] % len(live)]  # the same live id may occur twice in one list: applied in order, the last one wins
                        else:
                            eid = None
                        if eid is None:
                            new.append(_content(it["e"]))
                        else:
                            used.add(eid)
                            upd[eid] = _content(it["e"])
                        evs.append(_mk(Event, it["e"], eid))
                    with sut(f"{be}: step {step} upsert_many"):
                        b.insert(evs)
                    m.update(upd)
                    self._learn_new(step, b, m, new, uid)
                    if upd:
                        self.flags["upsert_with_ids"] += 1
                        if after_delete[bi] or tie[bi]:
                            self.flags["nontrivial"] += 1
                elif kind == "replace":
                    if not live:
                        self.flags["skipped"] += 1
                    else:
                        eid = live[op["k"] % len(live)]
                        with sut(f"{be}: step {step} replace"):
                            b.replace(eid, _mk(Event, op["e"]))
                        m[eid] = _content(op["e"])
                elif kind == "replace_last":
                    if not live:
                        self.flags["skipped"] += 1
                    else:
                        with sut(f"{be}: step {step} get(limit=1)"):
                            last = b.get(limit=1)
                        if len(last) != 1 or last[0].id not in m:
                            self.fail(step, f"limit-1 read on a non-empty bucket returned {last!r}")
                        lid = last[0].id
                        if m[lid][0] != max(c[0] for c in m.values()):  # a list model's limit-1 read returns a newest event (which one among equals is free)
                            self.fail(step, f"limit-1 read returned event {lid} at {m[lid][0] - BASE_US} us although the bucket holds a newer one: {sorted((c[0] - BASE_US, i) for i, c in m.items())}")
                        self.choices.append(uid[lid])  # which event (creation order), not merely its content
                        with sut(f"{be}: step {step} replace_last"):
                            b.replace_last(_mk(Event, op["e"]))
                        m[lid] = _content(op["e"])
                        self.flags["replace_last"] += 1
                        if after_delete[bi] or tie[bi]:
                            self.flags["nontrivial"] += 1
                        self._key_hint = "replace_last"
                elif kind == "delete":
                    if op["never"] or not live:
                        eid = (max(ever) if ever else 0) + 1000 + op["k"]
                    else:
                        eid = live[op["k"] % len(live)]
                    with sut(f"{be}: step {step} delete"):
                        b.delete(eid)
                    if eid in m:
                        del m[eid]
                        after_delete[bi] = True
                for mm in model:
                    ever.update(mm)
                self._compare(step, ds, bs, model, ever, kind)
                for i, mm in enumerate(model):
                    vals = list(mm.values())
                    if len({v[0] for v in vals}) < len(vals) or len({v[0] + v[1] for v in vals}) < len(vals):
                        tie[i] = True
                        self.flags["tie"] += 1
                self.trace.append([sorted(mm.values()) for mm in model])
        return self

    def _learn_new(self, step, b, m, new_contents, uid):
        with sut(f"{self.backend}: step {step} get(-1)"):
            listed = {e.id: stores.ev_tuple(e)[1:] for e in b.get(limit=-1)}
        fresh = {i: c for i, c in listed.items() if i not in m}
        if Counter(fresh.values()) != Counter(new_contents):
            self.fail(step, f"bulk insert of {len(new_contents)} id-less events produced new entries {sorted(fresh.items())}, expected contents {sorted(new_contents)}")
        m.update(fresh)
        for i in sorted(fresh, key=lambda i: (fresh[i], i)):  # equal contents are interchangeable
            self.nuid += 1
            uid[i] = self.nuid

    def _compare(self, step, ds, bs, model, ever, kind):
        be = self.backend
        for bi, (b, m) in enumerate(zip(bs, model)):
            with sut(f"{be}: step {step} reads"):
                lst = b.get(limit=-1)
                cnt = b.get_eventcount()
            got = [stores.ev_tuple(e) for e in lst]
            ids = [g[0] for g in got]
            if len(set(ids)) != len(ids):
                self.fail(step, f"bucket{bi}: two live events share an id: {sorted(ids)}")
            exp = sorted((i,) + c for i, c in m.items())
            if sorted(got) != exp:
                missing = [x for x in exp if x not in got]
                extra = [x for x in got if x not in exp]
                key = None
                if kind == "replace_last":
                    key = "sqlite_replace_last" if be == "sqlite" else None
                self.fail(step, f"bucket{bi} contents differ from the list model after {kind}: missing {missing}, unexpected {extra}", key=key)
            if cnt != len(m):
                self.fail(step, f"bucket{bi}: get_eventcount() = {cnt}, model has {len(m)}")
            for i, c in m.items():
                with sut(f"{be}: step {step} get_by_id"):
                    one = b.get_by_id(i)
                if one is None or stores.ev_tuple(one) != (i,) + c:
                    self.fail(step, f"bucket{bi}: get_by_id({i}) = {one!r}, model has {c}")
            dead = [i for i in ever if i not in m][:4] + [(max(ever) if ever else 0) + 7]
            for i in dead:
                with sut(f"{be}: step {step} get_by_id(dead)"):
                    one = b.get_by_id(i)
                if one is not None:
                    self.fail(step, f"bucket{bi}: get_by_id({i}) returned {one!r} for an id that is not live in this bucket")


def run_case(case):
    runs = {}
    for be in stores.BACKENDS:
        runs[be] = _Run(be, case).run()
    # interchangeability: id-erased contents agree while the limit-1 reads agreed
    ref = runs["memory"]
    for be in ("sqlite", "peewee"):
        r = runs[be]
        if r.choices == ref.choices and r.trace != ref.trace:
            for step, (x, y) in enumerate(zip(ref.trace, r.trace)):
                if x != y:
                    raise Violation(f"memory and {be} hold different contents after step {step} {json.dumps(case['ops'][step])}: {x} vs {y}")
    f = ref.flags
    classes = []
    for k in ("replace_last", "upsert_with_ids", "tie", "skipped"):
        if f[k]:
            classes.append(k)
    if any(runs[be].choices != ref.choices for be in ("sqlite", "peewee")):
        classes.append("tie_choice_differs_across_backends")
    return {"nontrivial": f["nontrivial"] > 0, "classes": classes, "evals": 3 * len(case["ops"])}


# ---------------------------------------------------------------------------
# exhaustive small scope: EVERY history up to a length over a small operation alphabet, on all three backends

_E = [
    {"slot": 1, "dur_s": 1, "sub_us": 0, "data": {"k": "A"}},
    {"slot": 2, "dur_s": 0, "sub_us": 0, "data": {"k": "B"}},  # zero-length, starts at the end of _E[0]: end-instant tie
    {"slot": 1, "dur_s": 2, "sub_us": 0, "data": {"k": "C"}},  # same timestamp as _E[0]: timestamp tie
    {"slot": 5, "dur_s": 1, "sub_us": 0, "data": {"k": "D"}},  # later than everything else: a replace with it moves an old event to the front
]
ALPHABET = [
    {"op": "insert", "b": 0, "e": _E[0]},
    {"op": "insert", "b": 0, "e": _E[1]},
    {"op": "insert", "b": 0, "e": _E[2]},
    {"op": "insert_many", "b": 0, "es": [_E[1], _E[0]]},
    {"op": "upsert_many", "b": 0, "items": [{"e": _E[2], "k": 0}, {"e": _E[1], "k": None}]},
    {"op": "replace", "b": 0, "k": 0, "e": _E[1]},
    {"op": "replace", "b": 0, "k": 1, "e": _E[2]},
    {"op": "replace", "b": 0, "k": 0, "e": _E[3]},
    {"op": "replace_last", "b": 0, "e": _E[0]},
    {"op": "replace_last", "b": 0, "e": _E[1]},
    {"op": "delete", "b": 0, "k": 0, "never": False},
    {"op": "delete", "b": 0, "k": 1, "never": False},
    {"op": "delete", "b": 0, "k": 0, "never": True},
    {"op": "insert", "b": 1, "e": _E[1]},
]
EXHAUSTIVE_NOTE = f"extra phase 'small_scope': every history of length <= L over an alphabet of {len(ALPHABET)} operations (inserts of three events with timestamp and end-instant ties, bulk insert, upsert, replace, replace_last, delete of first/second/never-issued id, insert into a second bucket), on all three backends started from an empty store and from a bucket holding an older and a newer event (quick L=3: 2 x 2 954 histories; thorough L=4: 2 x 41 370)"


def extra_phases(tier, seed, jobs):
    return [("small_scope", "phase_small_scope", [{"i": i, "n": jobs, "L": 3 if tier == "quick" else 4} for i in range(jobs)])]


def phase_small_scope(task):
    import itertools

    st_ = Stats()
    k = 0
    prefixes = [[], [0, 1]]  # from an empty store, and from a bucket that already holds an older and a newer event
    for prefix, L in [(p_, L_) for p_ in prefixes for L_ in range(1, task["L"] + 1)]:
        for combo in itertools.product(range(len(ALPHABET)), repeat=L):
            k += 1
            if k % task["n"] != task["i"]:
                continue
            case = {"nb": 2, "ops": [json.loads(json.dumps(ALPHABET[j])) for j in list(prefix) + list(combo)]}
            try:
                run_case(case)
            except Violation as v:
                st_.failure = {"kind": "case", "case": case, "message": v.msg}
                return st_
            st_.evals += 3
            st_.cases += 1
    st_.classes["histories_enumerated"] = st_.cases
    st_.notes["histories_enumerated"] = st_.cases
    return st_
