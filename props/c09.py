"""C09 — interval intersection and union of event lists are exact."""
from collections import Counter

from hypothesis import strategies as st

from vlib import intervals as iv
from vlib.runner import Stats, Violation, sut

ID = "C09"
DETERMINISTIC = True  # pure in-memory functions judged by a pure oracle: see runner (a failure seen once counts)
RULE = (
    "case = two event lists (0..8 each) on a ms grid built as (gap,length) chains with gap,length from {0,1,2,3}+tail, the second list "
    "independent or a perturbation of the first (edges shifted -1/0/+1, split, merged, nested), both shuffled; list one carries ids and labels; one case in four has the whole layout stretched from ms to whole seconds, hours, half days or days (class 'spans_of_a_day_or_more'). "
    "Intersection (non-overlapping lists): multiset of positive-length output pieces == brute-force {(max s, min e, data1, id1)} over all pairs, "
    "total duration == measure, inputs deep-equal before/after. Union (arbitrary, mutually overlapping lists, incl. the same two lists): output == "
    "unique list of maximal closed intervals, sorted, gaps > 0, data == {}. Non-trivial = some event meets >= 2 events of the other list, or an edge is shared."
)
ASSUMPTIONS = [
    "millisecond grid (Event resolution); closed-interval semantics for the union (touching events merge, an isolated zero-length event is kept)",
    "zero-length output pieces of filter_period_intersect are ignored, as the property says",
    "period_union is not required to leave its inputs unmodified (the property's non-modification clause belongs to the intersection sentence)",
]


def budget(tier):
    return 1500 if tier == "quick" else 40000


@st.composite
def strategy(draw, tier="quick"):
    a = draw(iv.nonoverlap_layout(max_n=8, with_ids=True))
    if draw(st.booleans()):
        b = draw(iv.perturbed(a))
    else:
        b = draw(iv.nonoverlap_layout(max_n=8))
    ua = draw(iv.arbitrary_layout(max_n=8))
    ub = draw(iv.arbitrary_layout(max_n=8))
    # the same layout in another unit: one in four cases is stretched to whole seconds, hours, half days or days, so that
    # pieces, gaps and sums reach and cross the fields a timedelta is made of (days / seconds / microseconds)
    unit = draw(st.sampled_from([1] * 9 + [1000, 3_600_000, 43_200_000, 86_400_000]))
    if unit != 1:
        a, b, ua, ub = ([dict(e, s=e["s"] * unit, d=e["d"] * unit) for e in lst] for lst in (a, b, ua, ub))
    return {
        "a": iv.shuffled(draw, a),
        "b": iv.shuffled(draw, b),
        "ua": ua,
        "ub": ub,
        "union_on": draw(st.sampled_from(["arbitrary", "ab", "mixed"])),
        "reuse": draw(st.booleans()),
    }


def _ivs(lst):
    return [(e["s"], e["s"] + e["d"]) for e in lst]


def check_intersection(a, b, reuse=False):
    from aw_core.models import Event
    from aw_transform import filter_period_intersect

    ea, eb = iv.to_events(a, Event), iv.to_events(b, Event)
    sa, sb = iv.snapshot(ea), iv.snapshot(eb)
    with sut("filter_period_intersect"):
        out = filter_period_intersect(ea, eb)
    if iv.snapshot(ea) != sa or iv.snapshot(eb) != sb:
        raise Violation(f"filter_period_intersect modified its inputs: a={a} b={b}")
    exp = Counter()
    for x in a:
        for y in b:
            s, e = max(x["s"], y["s"]), min(x["s"] + x["d"], y["s"] + y["d"])
            if e > s:
                exp[(s, e, x["l"], x["id"])] += 1
    got = Counter()
    for o in out:
        try:
            s, e = iv.from_event(o)
        except ValueError as ex:
            raise Violation(f"output piece off the ms grid: {ex}")
        if e > s:
            got[(s, e, o.data.get("l"), o.id)] += 1
        elif e < s:
            raise Violation(f"negative-length output piece ({s},{e})")
    if got != exp:
        missing = list((exp - got).elements())
        extra = list((got - exp).elements())
        raise Violation(f"filter_period_intersect(a={a}, b={b}): missing pieces {missing}, unexpected pieces {extra}")
    # the same list OBJECTS again, with other contents of the same length: a call is judged on its arguments' values
    if reuse and len(b) >= 1:
        b2 = [dict(e, s=e["s"] + 1) for e in b]  # shifted as a whole: still internally non-overlapping
        fresh = iv.to_events(b2, Event)
        eb[:] = fresh
        with sut("filter_period_intersect (list object reused with new contents)"):
            out2 = filter_period_intersect(ea, eb)
        exp2 = Counter()
        for x in a:
            for y in b2:
                s_, e_ = max(x["s"], y["s"]), min(x["s"] + x["d"], y["s"] + y["d"])
                if e_ > s_:
                    exp2[(s_, e_, x["l"], x["id"])] += 1
        got2 = Counter()
        for o in out2:
            s_, e_ = iv.from_event(o)
            if e_ > s_:
                got2[(s_, e_, o.data.get("l"), o.id)] += 1
        if got2 != exp2:
            raise Violation(f"filter_period_intersect called again with the same list object holding new contents (a={a}, b={b2}, before b={b}): missing {list((exp2 - got2).elements())}, unexpected {list((got2 - exp2).elements())}")
    total = sum(e - s for (s, e, _, _), n in got.items() for _ in range(n))
    pos_a = [p for p in _ivs(a) if p[1] > p[0]]
    pos_b = [p for p in _ivs(b) if p[1] > p[0]]
    common = 0
    for p in pos_a:
        common += (p[1] - p[0]) - sum(q[1] - q[0] for q in iv.subtract(p, pos_b))
    if total != common:
        raise Violation(f"total duration {total} != measure of common time {common}")


def check_union(a, b):
    from aw_core.models import Event
    from aw_transform import period_union

    ea, eb = iv.to_events(a, Event), iv.to_events(b, Event)
    with sut("period_union"):
        out = period_union(ea, eb)
    exp = iv.merge_closed(_ivs(a) + _ivs(b))
    try:
        got = [iv.from_event(o) for o in out]
    except ValueError as ex:
        raise Violation(f"output off the ms grid: {ex}")
    if got != exp:
        raise Violation(f"period_union(a={_ivs(a)}, b={_ivs(b)}) = {got}; maximal intervals are {exp}")
    for o in out:
        if o.data != {}:
            raise Violation(f"period_union output carries data {o.data!r}")
    if sum(e - s for s, e in got) != iv.measure(_ivs(a) + _ivs(b)):
        raise Violation("total duration != measure of covered time")
    # what was handed out belongs to the caller (an annotating transform would write into it): the next call must be data-less again
    for o in out:
        o.data["$category"] = ["scribbled"]
        o.data["$tags"] = ["x"]
    with sut("period_union (again, after the first result was annotated)"):
        out2 = period_union(iv.to_events(a, Event), iv.to_events(b, Event))
    for o in out2:
        if o.data != {}:
            raise Violation(f"period_union output carries data {o.data!r} after an earlier result was annotated by its caller")
    if [iv.from_event(o) for o in out2] != exp:
        raise Violation(f"period_union(a={_ivs(a)}, b={_ivs(b)}) called a second time = {[iv.from_event(o) for o in out2]}; maximal intervals are {exp}")


def run_case(case):
    a, b = case["a"], case["b"]
    check_intersection(a, b, reuse=case.get("reuse", False))
    if case["union_on"] == "arbitrary":
        ua, ub = case["ua"], case["ub"]
    elif case["union_on"] == "ab":
        ua, ub = a, b
    else:
        ua, ub = a + case["ua"], case["ub"] + b
    check_union(ua, ub)
    # non-triviality
    multi = shared = False
    for x, y in ((a, b), (b, a)):
        for e in x:
            n = sum(1 for f in y if iv.positive_overlap((e["s"], e["s"] + e["d"]), (f["s"], f["s"] + f["d"])))
            if n >= 2:
                multi = True
    edges_a = {p for e in a for p in (e["s"], e["s"] + e["d"])}
    edges_b = {p for e in b for p in (e["s"], e["s"] + e["d"])}
    shared = bool(edges_a & edges_b)
    classes = []
    if any(e["d"] >= 86_400_000 for e in case["a"] + case["b"]):
        classes.append("spans_of_a_day_or_more")
    if multi:
        classes.append("one_meets_many")
    if shared:
        classes.append("shared_edge")
    if any(e["d"] == 0 for e in a + b):
        classes.append("zero_length")
    if not a or not b:
        classes.append("empty_list")
    uiv = _ivs(ua) + _ivs(ub)
    if len(iv.merge_closed(uiv)) < len(uiv):
        classes.append("union_merges")
    return {"nontrivial": bool(a and b and (multi or shared)), "classes": classes, "evals": 2}


# ---------------------------------------------------------------------------
# exhaustive small scope: EVERY pair of non-overlapping lists on a tiny grid (no sampling)

EXHAUSTIVE_NOTE = "extra phase 'small_scope': filter_period_intersect on every pair of internally non-overlapping lists of <= N events with integer ms edges in [0, G] incl. lists with a zero-length event on the start edge of the event listed before it (quick G=4,N=3; thorough G=5,N=4) and period_union on every pair of arbitrary lists of <= 2 intervals on [0, 4] (58 081 pairs)"


def extra_phases(tier, seed, jobs):
    g, n = (4, 3) if tier == "quick" else (5, 4)
    return [("small_scope", "phase_small_scope", [{"i": i, "n": jobs, "grid": g, "max_n": n} for i in range(jobs)])]


def _evs(layout, with_ids):
    return [dict({"s": s, "d": e - s, "l": "ab"[k % 2]}, **({"id": k + 1} if with_ids else {})) for k, (s, e) in enumerate(layout)]


def phase_small_scope(task):
    st_ = Stats()
    lay = iv.all_layouts(task["grid"], task["max_n"], zero_on_start=True)
    for a in iv.shard(lay, task["i"], task["n"]):
        ea = _evs(a, True)
        for b in lay:
            try:
                check_intersection(ea, _evs(b, False))
            except Violation as v:
                st_.failure = {"kind": "case", "case": {"a": ea, "b": _evs(b, False), "ua": [], "ub": [], "union_on": "ab"}, "message": v.msg}
                return st_
            st_.evals += 1
    single = [(s, e) for s in range(5) for e in range(s, 5)]
    lists = [[]] + [[x] for x in single] + [[x, y] for x in single for y in single]
    for a in iv.shard(lists, task["i"], task["n"]):
        for b in lists:
            try:
                check_union(_evs(a, False), _evs(b, False))
            except Violation as v:
                st_.failure = {"kind": "case", "case": {"a": [], "b": [], "ua": _evs(a, False), "ub": _evs(b, False), "union_on": "arbitrary"}, "message": v.msg}
                return st_
            st_.evals += 1
    st_.classes["pairs_enumerated"] = st_.evals
    st_.notes["pairs_enumerated"] = st_.evals
    return st_
