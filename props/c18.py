"""C18 — buffered writes are flushed once they are about ten seconds old."""
import json
import os
import sqlite3
import subprocess
import sys
import time

from hypothesis import strategies as st

from vlib import crash, env, stores
from vlib.runner import Inconclusive, Stats, Violation, case_hash, sut

ID = "C18"
LEVEL = "fault_enumeration"
RULE = (
    "case = history of 5..60 steps on the lazily-committing SQLite store whose clock (the module-level datetime it reads) is replaced by a controllable one: "
    "each step advances the clock by a value from {0, 0.5, 3, 9, 11, 12, 60, 3600, 86400 s} (never inside (9,11), so 'about ten' is not tested at its edge) and "
    "performs an event write (insert, bulk insert of 0..5 or occasionally 49..230 events with and without ids, replace, replace_last, delete) or occasionally a read. Oracle with the C06 observers: a flush moment is any "
    "COMMIT statement or any operation return at which the second connection's dump equals the writer's; for each event write at clock time t with f the latest "
    "earlier flush (store creation counts): if t - f >= 11 s then after the write returns the second connection must see the writer's state (the write itself is "
    "durable). Nothing is demanded for t - f <= 9 s. The controlled clock starts in 2001, 2023 or 2096 and hands out naive local time as datetime.now() does; in workers whose local zone observes daylight saving, 3 cases in 5 start 5..100 s before the wall clock is set back. Real time as well (4 children in quick, 16 in thorough): child processes write, sleep 11..12 s, write again, and the parent inspects the file "
    "through a fresh connection. Non-trivial = some write follows a >= 11 s pause while 1..49 writes are pending (the count threshold cannot explain the flush)."
)
ASSUMPTIONS = [
    "the store reads time through the name `datetime` of its module (if a demanded flush is missing and the fake clock was never read at all, the run is inconclusive, exit 2, not a violation); the real-time phase does not depend on this",
    "crash = process death; what a second connection sees is what survives",
]
ADV = [0, 0, 0.5, 3, 9, 11, 12, 60, 3600, 86400]


def budget(tier):
    return 400 if tier == "quick" else 6000


@st.composite
def strategy(draw, tier="quick"):
    ev = st.tuples(st.integers(0, 50), st.integers(0, 3), st.sampled_from("abc")).map(list)
    b = st.integers(0, 1)
    op = st.one_of(
        st.fixed_dictionaries({"op": st.just("insert"), "b": b, "e": ev}),
        st.fixed_dictionaries({"op": st.just("insert"), "b": b, "e": ev}),
        st.fixed_dictionaries({"op": st.just("insert"), "b": b, "e": ev}),
        st.fixed_dictionaries({"op": st.just("replace"), "b": b, "k": st.integers(0, 99), "e": ev}),
        st.fixed_dictionaries({"op": st.just("replace_last"), "b": b, "e": ev}),
        st.fixed_dictionaries({"op": st.just("delete"), "b": b, "k": st.integers(0, 99)}),
        st.fixed_dictionaries({"op": st.just("bulk"), "b": b, "n": st.one_of(st.integers(0, 5), st.integers(0, 5), st.sampled_from([49, 51, 100, 101, 120, 150, 230])), "seed": st.integers(0, 999), "upd": st.integers(0, 2)}),
        st.fixed_dictionaries({"op": st.just("read"), "b": b, "kind": st.sampled_from(["get", "count"])}),
        st.fixed_dictionaries({"op": st.just("elsewhere"), "b": b, "v": st.integers(0, 9)}),  # a second store in the same process, on another file, reads and writes
        st.fixed_dictionaries({"op": st.just("extend_last"), "b": b, "dur_s": st.integers(1, 30)}),  # heartbeat: same start, longer
        st.fixed_dictionaries({"op": st.just("extend_last"), "b": b, "dur_s": st.integers(1, 30)}),
    )
    profile = draw(st.sampled_from([ADV, [0, 0, 0, 0.5, 12], [3, 9, 11, 12], [0, 60, 3600], ADV, [0.3, 0.4, 0.45], [0.2, 0.3, 0.45, 0.45]]))  # the last two: a burst just slow enough to age past ten seconds before fifty writes
    steps = draw(st.lists(st.tuples(st.sampled_from(profile), op), min_size=5, max_size=60))
    ops = []
    for adv, o in steps:
        o = dict(o)
        o["adv"] = adv
        ops.append(o)
    if draw(st.integers(0, 3)) == 0:
        # a burst just slow enough to age past ten seconds well before fifty writes have accumulated
        gap = draw(st.sampled_from([0.25, 0.3, 0.4, 0.45]))
        n = draw(st.integers(int(11 / gap) + 1, min(49, int(11 / gap) + 12)))
        at = draw(st.integers(0, len(ops)))
        ops[at:at] = [{"op": "read", "b": 0, "kind": "count", "adv": 0}] + [{"op": "insert", "b": 0, "e": [i % 50, 1, "b"], "adv": gap} for i in range(n)]
    # where the controlled clock starts: long before or long after the real present, so that an instant the store took from
    # anywhere else (the real clock, a value frozen at import) is far off in one direction or the other
    return {
        "ops": ops,
        "clock_base": draw(st.sampled_from([1_000_000_000, 1_700_000_000, 4_000_000_000])),
        # start a little before the local zone's next end of daylight saving (the wall clock is then set back an hour), if it has one
        "before_fall_back_s": draw(st.sampled_from([None, None, 5, 20, 100])),
    }


def known_key(case, v):
    return v.key


class Oracle:
    def __init__(self, path, clock):
        self.obs = crash.Observer(path)
        self.clock = clock
        self.flush_t = clock.t
        self.pending_writes = 0
        self.flags = {"age_flush_demanded": 0, "age_flush_demanded_with_few_pending": 0, "writes": 0}
        self.calls_before = 0

    def start(self, runner, L0):
        self.runner = runner
        self.tracer = stores.Tracer(runner.ds, self.on_statement)
        self.flush_t = self.clock.t

    def on_statement(self, sql):
        if sql.strip().upper().startswith("COMMIT"):
            self.flush_t = self.clock.t
            self.saw_commit = True

    def before(self, i, op):
        self.clock.advance(op.get("adv", 0))
        self.f_before = self.flush_t
        self.calls_before = self.clock.calls
        self.saw_commit = False

    def on_return(self, i, op, kind, L):
        D = self.obs.current()
        durable = D == L
        t = self.clock.t
        if kind in crash.SINGLE or kind == "bulk":
            self.flags["writes"] += 1
            age = t - self.f_before
            if age >= 11:
                self.flags["age_flush_demanded"] += 1
                if 0 < self.pending_writes < 49:
                    self.flags["age_flush_demanded_with_few_pending"] += 1
                if not durable and self.clock.calls == 0:
                    # the store never asked our clock for the time: it must be using another clock source, which this tier cannot drive
                    raise Inconclusive("the SQLite store never read the (fake) clock; the fake-clock tier cannot decide (the real-time phase of the thorough tier still does)")
                if not durable:
                    raise Violation(
                        f"sqlite: write {i} {json.dumps(op)} was issued {age:.1f} s after the previous flush but is not durable when it returns "
                        f"({crash.diff_count(D, L)} row changes would be lost in a crash; {self.pending_writes + 1} writes buffered)",
                        key="age_flush_never_fires",
                    )
            self.pending_writes = 0 if durable else self.pending_writes + 1
        elif durable:
            self.pending_writes = 0
        if durable:
            self.flush_t = t

    def stop(self):
        self.tracer.stop()
        self.obs.close()


def run_case(case):
    path = env.fresh_path(".db")
    r = None
    dst = False
    with stores.FakeClock(float(min(case.get("clock_base", 1_700_000_000), 2_000_000_000 if case.get("before_fall_back_s") else 10**11))) as clock:
        if case.get("before_fall_back_s"):
            fb = clock.next_fall_back()
            if fb is not None:
                clock.t = float(fb - case["before_fall_back_s"])
                dst = True
        orc = Oracle(path, clock)
        try:
            with sut("sqlite: running the history"):
                r = crash.Runner("sqlite", path, hooks=orc)
                r.run(case["ops"])
        finally:
            try:
                orc.stop()
            except Exception:
                pass
            if r is not None:
                r.close()
            env.rm(path)
    f = orc.flags
    classes = [k for k, v in f.items() if v and k != "writes"]
    if any(o["adv"] >= 3600 for o in case["ops"]):
        classes.append("long_idle")
    if dst:
        classes.append("local_clock_set_back_during_history")
    return {"nontrivial": f["age_flush_demanded_with_few_pending"] > 0, "classes": classes, "evals": f["writes"]}


# ---------------------------------------------------------------------------
# real time (thorough): no patching at all

CHILD = r"""
import sys, time
from vlib import env
env.init()
from vlib import crash, stores
from aw_core.models import Event
path, pause, kind = sys.argv[1], float(sys.argv[2]), sys.argv[3]
r = crash.Runner("sqlite", path)
ops = [{"op": "create_bucket", "b": 0}, {"op": "insert", "b": 0, "e": [1, 1, "a"]}, {"op": "insert", "b": 0, "e": [2, 1, "b"]}]
r.run(ops)
print("READY", flush=True)
time.sleep(pause)
second = {"insert": {"op": "insert", "b": 0, "e": [3, 1, "c"]}, "replace_last": {"op": "replace_last", "b": 0, "e": [4, 2, "d"]}, "delete": {"op": "delete", "b": 0, "k": 0}, "bulk": {"op": "bulk", "b": 0, "n": 3, "seed": 1, "upd": 0}}[kind]
L = r.run([second])
import json
print("DONE " + json.dumps(sorted([list(k) + [list(v)] for k, v in L.items()], key=str), default=str), flush=True)
time.sleep(600)
"""


def extra_phases(tier, seed, jobs):
    kinds = ["insert", "replace_last", "delete", "bulk"]
    if tier != "thorough":  # one child per kind of write; they sleep side by side, so this costs about twelve seconds of wall clock
        return [("realtime", "phase_realtime", [{"pause": 11.0 + w * 0.25, "kind": kinds[w], "w": w} for w in range(4)])]
    return [("realtime", "phase_realtime", [{"pause": 11.0 + (w % 5) * 0.25, "kind": kinds[w % 4], "w": w} for w in range(jobs)])]


def _realtime(task):
    disk = env.disk_scratch()
    path = os.path.join(disk, "rt.db")
    envv = dict(os.environ, VERIF_REPO=env.REPO, PYTHONPATH=env.VERIF, PYTHONHASHSEED="0")
    p = subprocess.Popen([sys.executable, "-B", "-c", CHILD, path, str(task["pause"]), task["kind"]], env=envv, cwd=env.VERIF, stdout=subprocess.PIPE, stderr=subprocess.STDOUT, text=True)
    try:
        line = p.stdout.readline()
        if not line.startswith("READY"):
            raise RuntimeError("real-time child failed: " + line + p.stdout.read()[-800:])
        line = p.stdout.readline()
        if not line.startswith("DONE"):
            raise RuntimeError("real-time child failed: " + line + p.stdout.read()[-800:])
        writer_view = json.loads(line[5:])
        got = stores.fresh_dump(path)
        got = json.loads(json.dumps(sorted([list(k) + [list(v)] for k, v in got.items()], key=str), default=str))
        if got != writer_view:
            raise Violation(
                f"sqlite (real time): a {task['kind']} issued {task['pause']} s after the previous write is not durable when it returns: file holds {len(got)} rows, writer sees {len(writer_view)}",
                key="age_flush_never_fires",
            )
    finally:
        p.kill()
        p.wait()
        import shutil

        shutil.rmtree(disk, ignore_errors=True)


def phase_realtime(task):
    st_ = Stats()
    try:
        _realtime(task)
    except Violation as v:
        st_.failure = {"kind": "realtime", "case": task, "message": v.msg}
        return st_
    st_.evals = 1
    st_.classes[task["kind"]] += 1
    st_.nontrivial.add(case_hash(task))
    return st_


def replay_realtime(p):
    _realtime(p)


def known_key_realtime(case, v):
    return v.key
