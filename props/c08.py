"""C08 — heartbeat merging is the pulsetime hull rule; reduction is a normal form."""
import copy
from datetime import timedelta

from hypothesis import strategies as st

from vlib import gen
from vlib.runner import Stats, Violation, sut

ID = "C08"
DETERMINISTIC = True  # pure in-memory functions judged by a pure oracle: see runner (a failure seen once counts)
RULE = (
    "case = list of 0..12 events in ANY order (timestamps on a ms grid within a 40 ms / 6 s window so overlaps, ties and out-of-order "
    "pairs are common; durations at us granularity, zero and negative included; data from {A,B}) x pulsetime P us (0, small, k ms, k us, or "
    "exactly the distance end(a)->start(b) of a chosen adjacent pair -1/0/+1 us). Oracle in integer us: mergeable(a,b) <=> data equal and "
    "a.ts <= b.ts <= a.end+P and a.dur >= 0; merge result = (a.ts, max(a.end,b.end), a.data); heartbeat_merge checked on every adjacent pair, "
    "heartbeat_reduce against the oracle's own left fold + normal-form + idempotence + coverage of every non-negative input. "
    "Non-trivial = some adjacent pair lies on a boundary (b.ts == a.end+P, b.ts == a.ts, a.dur == 0) or the fold contains both a merge and a refusal."
)
ASSUMPTIONS = [
    "pulsetime is a float equal to an integer number of microseconds / 1e6 (the resolution of timedelta)",
    "timestamps are on the millisecond grid (Event floors them anyway)",
]

BASE_US = 1_600_000_000_000_000


def budget(tier):
    return 1500 if tier == "quick" else 40000


@st.composite
def strategy(draw, tier="quick"):
    n = draw(st.integers(0, 12))
    wide = draw(st.booleans())
    evs = []
    t = draw(st.integers(0, 10))
    for _ in range(n):
        mode = draw(st.integers(0, 5))
        if mode <= 2:  # mostly forward in time
            t = t + draw(st.sampled_from([0, 0, 1, 1, 2, 3, 5, 1000, 2000]))
        else:
            t = draw(st.integers(0, 6000 if wide else 40))
        dur = draw(
            st.one_of(
                st.sampled_from([0, 0, 1, 999, 1000, 1001, 2000, 3000, 10**6, -1, -1000]),
                st.integers(-2000, 5000),
                st.integers(0, 3 * 10**6),
            )
        )
        evs.append({"ts_ms": t, "dur_us": dur, "data": draw(st.sampled_from(["A", "A", "B"]))})
    pmode = draw(st.integers(0, 3))
    P = None
    if pmode == 0 and n >= 2:
        i = draw(st.integers(0, n - 2))
        gap = evs[i + 1]["ts_ms"] * 1000 - (evs[i]["ts_ms"] * 1000 + evs[i]["dur_us"])
        P = gap + draw(st.sampled_from([-1, 0, 0, 1]))
        if P < 0:
            P = None
    if P is None:
        P = draw(st.one_of(st.sampled_from([0, 1, 999, 1000, 1001, 2000, 5000, 10**6, 5 * 10**6, 60 * 10**6]), st.integers(0, 4000), st.integers(0, 10**7)))
    return {"events": evs, "P_us": P, "zone": draw(st.sampled_from([None, None, "Europe/London", "Europe/Lisbon", "Europe/Berlin"])), "scale": draw(st.sampled_from([1, 1, 1, 60_000]))}


ZONE_BASE_US = 1_616_893_200_000_000 - 1800 * 10**6  # half an hour before Europe's clocks went forward on 2021-03-28
_zone = {"tz": None}


def _mk(Event, e):
    ts = gen.dt_utc(BASE_US + e["ts_ms"] * 1000)
    if _zone["tz"] is not None:  # the same instant, handed over in a real zone (an Event normalises it to UTC)
        ts = ts.astimezone(_zone["tz"])
    return Event(timestamp=ts, duration=timedelta(microseconds=e["dur_us"]), data={"k": e["data"]})


def _t(e):
    """(ts, end, data) in us relative to BASE."""
    ts = gen.to_us(e.timestamp) - BASE_US
    return ts, ts + gen.td_us(e.duration), e.data.get("k")


def _mergeable(a, b, P):
    # a, b: (ts, end, data)
    return a[2] == b[2] and a[0] <= b[0] <= a[1] + P and a[1] - a[0] >= 0


def _hull(a, b):
    return (a[0], max(a[1], b[1]), a[2])


def run_case(case):
    from aw_core.models import Event
    from aw_transform import heartbeat_merge, heartbeat_reduce

    global BASE_US
    scale = case.get("scale", 1)
    evs = case["events"]
    if scale != 1:  # stretch the layout from milliseconds to minutes, so that it spans a daylight-saving change
        evs = [dict(e, ts_ms=e["ts_ms"] * scale, dur_us=e["dur_us"] * scale) for e in evs]
    P = case["P_us"] * scale
    p = P / 10**6
    _zone["tz"] = None
    BASE_US = 1_600_000_000_000_000
    if case.get("zone"):
        try:
            import zoneinfo

            _zone["tz"] = zoneinfo.ZoneInfo(case["zone"])
            BASE_US = ZONE_BASE_US
        except Exception:
            _zone["tz"] = None
    model = [(e["ts_ms"] * 1000, e["ts_ms"] * 1000 + e["dur_us"], e["data"]) for e in evs]
    boundary = False
    # pairwise merge
    for i in range(len(evs) - 1):
        a, b = model[i], model[i + 1]
        ea, eb = _mk(Event, evs[i]), _mk(Event, evs[i + 1])
        with sut("heartbeat_merge"):
            r = heartbeat_merge(ea, eb, p)
        exp = _mergeable(a, b, P)
        if b[0] == a[1] + P or b[0] == a[0] or a[1] == a[0]:
            boundary = True
        if (r is not None) != exp:
            raise Violation(f"heartbeat_merge(a={a}, b={b}, pulsetime={p}) {'merged' if r is not None else 'refused'}; rule says {'merge' if exp else 'refuse'}")
        if r is not None:
            got = _t(r)
            if got != _hull(a, b):
                raise Violation(f"heartbeat_merge(a={a}, b={b}, pulsetime={p}) = {got}, hull rule gives {_hull(a, b)}")
            if r.data != {"k": a[2]}:
                raise Violation("merged event's data differ from the first's")
    # reduce == left fold
    exp = []
    merges = refusals = 0
    for m in model:
        if exp and _mergeable(exp[-1], m, P):
            exp[-1] = _hull(exp[-1], m)
            merges += 1
        else:
            if exp:
                refusals += 1
            exp.append(m)
    with sut("heartbeat_reduce"):
        out = heartbeat_reduce([_mk(Event, e) for e in evs], p)
    got = [_t(e) for e in out]
    if got != exp:
        raise Violation(f"heartbeat_reduce({model}, {p}) = {got}; left fold of the rule gives {exp}")
    for x, y in zip(got, got[1:]):
        if _mergeable(x, y, P):
            raise Violation(f"output contains consecutive mergeable events {x}, {y}")
    with sut("heartbeat_reduce (second pass)"):
        out2 = heartbeat_reduce(copy.deepcopy(out), p)
    if [_t(e) for e in out2] != got:
        raise Violation(f"reducing again changes the result: {got} -> {[_t(e) for e in out2]}")
    for m in model:
        if m[1] >= m[0] and not any(o[2] == m[2] and o[0] <= m[0] and m[1] <= o[1] for o in got):
            raise Violation(f"input interval {m} is not covered by any output event with equal data: {got}")
    classes = []
    if merges:
        classes.append("has_merge")
    if refusals:
        classes.append("has_refusal")
    if boundary:
        classes.append("boundary_pair")
    if any(e["dur_us"] < 0 for e in evs):
        classes.append("negative_duration")
    if any(model[i + 1][0] < model[i][0] for i in range(len(model) - 1)):
        classes.append("out_of_order")
    return {"nontrivial": boundary or (merges and refusals), "classes": classes, "evals": max(1, len(evs))}


# ---------------------------------------------------------------------------
# exhaustive small scope

EXHAUSTIVE_NOTE = "extra phase 'small_scope': every list of 1..3 events over {timestamp 0..3 ms} x {duration -1,0,1,2 ms} x {A,B} (33 824 lists, any order) with every pulsetime in {0,1,2 ms} (thorough: timestamps 0..4 ms, durations -1..3 ms, pulsetimes 0..3 ms, 132 650 lists)"


def extra_phases(tier, seed, jobs):
    return [("small_scope", "phase_small_scope", [{"i": i, "n": jobs, "big": tier != "quick"} for i in range(jobs)])]


def phase_small_scope(task):
    import itertools

    st_ = Stats()
    tss, durs, ps = (range(4), (-1000, 0, 1000, 2000), (0, 1000, 2000)) if not task["big"] else (range(5), (-1000, 0, 1000, 2000, 3000), (0, 1000, 2000, 3000))
    atoms = [{"ts_ms": t, "dur_us": d, "data": l} for t in tss for d in durs for l in "AB"]
    lists = [list(c) for n in (1, 2, 3) for c in itertools.product(atoms, repeat=n)]
    for evs in lists[task["i"] :: task["n"]]:
        for P in ps:
            case = {"events": evs, "P_us": P}
            try:
                run_case(case)
            except Violation as v:
                st_.failure = {"kind": "case", "case": case, "message": v.msg}
                return st_
            st_.evals += 1
    st_.classes["cases_enumerated"] = st_.evals
    st_.notes["cases_enumerated"] = st_.evals
    return st_
