"""C16 — grouping, chunking, sorting and filtering conserve events and time."""
import json
from datetime import timedelta

from hypothesis import strategies as st

from vlib import gen
from vlib.runner import Stats, Violation, sut

ID = "C16"
DETERMINISTIC = True  # pure in-memory functions judged by a pure oracle: see runner (a failure seen once counts)
RULE = (
    "case = list of 0..15 events (ms-grid timestamps, us durations, duplicates, ids absent or shared between events as when reads of several buckets are concatenated) with data over keys {a,b,c} each present or absent (put into the dict in an order that varies from event to event), values from "
    "{'x','y',1,2,null,['x'],['x','y'],0,'',[],'1','None',['1'],[1]} x non-empty key list x filter key/values x count >= 0. Oracles: merge_events_by_keys against grouping by the tuple "
    "((k present?, value) for k in keys): one output per group, same presence/value pattern, exact us duration sum, total conserved; chunk_events_by_key "
    "(every event has the key): subevents concatenate to the input, share the chunk's value, durations add up, runs maximal when input is time-sorted with "
    "all gaps < pulsetime; sort_by_*: ordered permutation of the same objects; limit_events: prefix; filter/exclude_keyvals: order-preserving complementary split (value lists of 0..3, one case in five of 12..40 entries); "
    "sum_durations within 1 us per 1e9 us; none modifies its input. Non-trivial = two events whose presence patterns differ but whose present values coincide, "
    "or a list-valued key, or a run of >= 3 equal chunk values."
)
ASSUMPTIONS = [
    "key lists are non-empty (keys=[] returns the input by an explicit early exit)",
    "values exclude booleans and floats (Python equates them with ints)",
    "chunk maximality is only demanded on time-sorted input whose gaps are all below the pulsetime",
]
BASE_US = 1_600_000_000_000_000
VALUES = ["x", "y", 1, 2, None, ["x"], ["x", "y"], 0, "", [], "1", "None", ["1"], [1], '["x"]', "[]", "()"]  # incl. strings that spell a list  # incl. falsy values, which are values all the same


def budget(tier):
    return 1200 if tier == "quick" else 30000


@st.composite
def strategy(draw, tier="quick"):
    n = draw(st.integers(0, 15))
    pool = draw(st.sampled_from([VALUES, VALUES[:3], ["x", 1, None], VALUES]))
    evs = []
    t = 0
    sorted_mode = draw(st.booleans())
    for _ in range(n):
        if sorted_mode:
            t += draw(st.sampled_from([0, 1, 5, 100, 4000]))
        else:
            t = draw(st.integers(0, 20000))
        data = {}
        for k in "abc":
            if draw(st.integers(0, 2)) > 0:
                data[k] = draw(st.sampled_from(pool))
        dur = draw(st.one_of(st.sampled_from([0, 1, 999, 1000, 10**6]), st.integers(0, 5 * 10**6)))
        ev = {"ts_ms": t, "dur_us": dur, "data": data, "korder": draw(st.sampled_from(["abc", "abc", "cba", "bac", "cab"])), "id": draw(st.sampled_from([None, None, 0, 1, 2, 7]))}  # ids are unique per bucket only: events of a list may share one
        evs.append(ev)
        if sorted_mode:
            t += dur // 1000
        if evs and draw(st.integers(0, 7)) == 0:
            evs.append(json.loads(json.dumps(draw(st.sampled_from(evs)))))
    keys = draw(st.lists(st.sampled_from(["a", "b", "c"]), min_size=1, max_size=3, unique=True))
    chunk_vals = [draw(st.sampled_from(["x", "x", "y", 1, 1, "1", ["x"]])) for _ in evs]
    return {
        "events": evs,
        "keys": keys,
        "chunk_vals": chunk_vals,
        "filter_key": draw(st.sampled_from(["a", "b", "c", "zz"])),
        # mostly a few values; one case in five a long list of them (what a category or host list looks like), repeats included
        "filter_vals": draw(st.lists(st.sampled_from(VALUES), max_size=3)) if draw(st.integers(0, 4)) else draw(st.lists(st.sampled_from(VALUES + ["y", "z", 2, 3, ["x", "y"], ["y"], "", 0]), min_size=12, max_size=40)),
        "count": draw(st.integers(0, 18)),
    }


def _mk(Event, e, i=None, extra=None):
    d = json.loads(json.dumps(e["data"]))
    d = {k: d[k] for k in list(e.get("korder", "")) + sorted(d) if k in d}  # the order in which the keys were put into the dict varies from event to event
    if extra:
        d.update(extra)
    return Event(id=i, timestamp=gen.dt_utc(BASE_US + e["ts_ms"] * 1000), duration=timedelta(microseconds=e["dur_us"]), data=d)


def _snap(events):
    return [(e.get("id"), gen.to_us(e["timestamp"]), gen.td_us(e["duration"]), json.dumps(e["data"], sort_keys=True, default=repr), sorted(e.keys())) for e in events]


def _c(v):
    return json.dumps(v, sort_keys=True)


def known_key(case, v):
    return v.key


def run_case(case):
    from aw_core.models import Event
    import aw_transform as T

    evs = case["events"]
    keys = case["keys"]
    mk = lambda: [_mk(Event, e, e.get("id", i)) for i, e in enumerate(evs)]

    def unchanged(name, fn):
        inp = mk()
        snap = _snap(inp)
        ids = [id(x) for x in inp]
        with sut(name):
            out = fn(inp)
        if _snap(inp) != snap or [id(x) for x in inp] != ids:
            raise Violation(f"{name} modified its input list or events")
        return inp, out

    # ---- merge_events_by_keys
    inp, out = unchanged("merge_events_by_keys", lambda i: T.merge_events_by_keys(i, keys))
    groups = {}
    for e in evs:
        pat = tuple((k in e["data"], _c(e["data"].get(k))) for k in keys)
        groups[pat] = groups.get(pat, 0) + e["dur_us"]
    got = {}
    for o in out:
        pat = tuple((k in o.data, _c(o.data.get(k))) for k in keys)
        if pat in got:
            raise Violation(f"merge_events_by_keys(keys={keys}) returned two events for the same combination {pat}; input data {[e['data'] for e in evs]}")
        got[pat] = gen.td_us(o.duration)
        extra = set(o.data) - set(keys)
        if extra:
            raise Violation(f"merged event carries unrelated keys {extra}")
    if got != groups:
        raise Violation(
            f"merge_events_by_keys(keys={keys}) on data/dur {[(e['data'], e['dur_us']) for e in evs]}: got groups {got}, expected one event per presence/value combination {groups}",
            key="merge_presence_collision" if sum(got.values()) == sum(groups.values()) and len(got) < len(groups) else None,
        )
    # ---- chunk_events_by_key
    cv = case["chunk_vals"]
    mkc = lambda: [_mk(Event, e, i, {"k": json.loads(json.dumps(v))}) for i, (e, v) in enumerate(zip(evs, cv))]
    inp = mkc()
    snap = _snap(inp)
    with sut("chunk_events_by_key"):
        chunks = T.chunk_events_by_key(inp, "k", 5.0)
    if _snap(inp) != snap:
        raise Violation("chunk_events_by_key modified its input events")
    cat = []
    for ch in chunks:
        subs = ch.data.get("subevents")
        if not subs:
            raise Violation("chunk without subevents")
        for s in subs:
            if s.data.get("k") != ch.data.get("k"):
                raise Violation(f"chunk with value {ch.data.get('k')!r} holds a subevent with value {s.data.get('k')!r}")
        if gen.td_us(ch.duration) != sum(gen.td_us(s.duration) for s in subs):
            raise Violation(f"chunk duration {gen.td_us(ch.duration)} != sum of subevent durations {[gen.td_us(s.duration) for s in subs]}")
        cat.extend(subs)
    if _snap(cat) != snap:
        raise Violation(f"chunk subevents do not concatenate back to the input: {len(cat)} vs {len(inp)} events; values {cv}")
    is_sorted = all(
        evs[i]["ts_ms"] * 1000 + evs[i]["dur_us"] <= evs[i + 1]["ts_ms"] * 1000 and evs[i + 1]["ts_ms"] * 1000 - (evs[i]["ts_ms"] * 1000 + evs[i]["dur_us"]) < 5 * 10**6
        for i in range(len(evs) - 1)
    )
    if is_sorted:
        for x, y in zip(chunks, chunks[1:]):
            if x.data.get("k") == y.data.get("k"):
                raise Violation(f"consecutive chunks share the value {x.data.get('k')!r} on time-sorted, gap-free input; values {cv}")
    # ---- sorting
    for name, fn, keyf, rev in (
        ("sort_by_timestamp", T.sort_by_timestamp, lambda e: gen.to_us(e.timestamp), False),
        ("sort_by_duration", T.sort_by_duration, lambda e: gen.td_us(e.duration), True),
    ):
        inp, out = unchanged(name, fn)
        if sorted(map(id, out)) != sorted(map(id, inp)):
            raise Violation(f"{name} is not a permutation of its input")
        ks = [keyf(e) for e in out]
        if any((a < b) if rev else (a > b) for a, b in zip(ks, ks[1:])):
            raise Violation(f"{name} output is not ordered: {ks}")
    # ---- limit
    n = case["count"]
    inp, out = unchanged("limit_events", lambda i: T.limit_events(i, n))
    if [id(x) for x in out] != [id(x) for x in inp[:n]]:
        raise Violation(f"limit_events(count={n}) is not the first {n} events")
    # ---- filter / exclude
    fk, fv = case["filter_key"], case["filter_vals"]
    inp = mk()
    snap = _snap(inp)
    with sut("filter_keyvals"):
        keep = T.filter_keyvals(inp, fk, fv, False)
        drop = T.filter_keyvals(inp, fk, fv, True)
    if _snap(inp) != snap:
        raise Violation("filter_keyvals modified its input")
    ki, di = [id(x) for x in keep], [id(x) for x in drop]
    pos = {id(x): i for i, x in enumerate(inp)}
    if set(ki) & set(di) or sorted(ki + di, key=lambda i: pos.get(i, -1)) != [id(x) for x in inp]:
        raise Violation(f"filter_keyvals and exclude_keyvals do not split the input into complementary parts (key={fk!r}, vals={fv!r})")
    if [pos[i] for i in ki] != sorted(pos[i] for i in ki) or [pos[i] for i in di] != sorted(pos[i] for i in di):
        raise Violation("filter/exclude_keyvals do not preserve input order")
    exp_keep = [i for i, e in enumerate(evs) if fk in e["data"] and e["data"][fk] in fv]
    if [pos[i] for i in ki] != exp_keep:
        raise Violation(f"filter_keyvals(key={fk!r}, vals={fv!r}) kept {[pos[i] for i in ki]}, expected {exp_keep}")
    # ---- sum
    inp, tot = unchanged("sum_durations", T.sum_durations)
    exact = sum(e["dur_us"] for e in evs)
    if abs(gen.td_us(tot) - exact) > 1 + exact / 10**9:
        raise Violation(f"sum_durations = {gen.td_us(tot)} us, exact {exact} us")
    # ---- classification
    collide = False
    pats = {}
    for e in evs:
        pres = tuple(k in e["data"] for k in keys)
        vals = tuple(_c(e["data"][k]) for k in keys if k in e["data"])
        pats.setdefault(vals, set()).add(pres)
    collide = any(len(v) > 1 for v in pats.values())
    listval = any(isinstance(e["data"].get(k), list) for e in evs for k in keys)
    run3 = any(_c(cv[i]) == _c(cv[i + 1]) == _c(cv[i + 2]) for i in range(len(evs) - 2))
    classes = []
    if collide:
        classes.append("presence_collision")
    if listval:
        classes.append("list_valued_key")
    if run3:
        classes.append("run_of_3")
    if is_sorted and len(evs) > 1:
        classes.append("time_sorted")
    if len(case["filter_vals"]) >= 12:
        classes.append("long_filter_value_list")
    return {"nontrivial": collide or listval or run3, "classes": classes, "evals": 7}


# ---------------------------------------------------------------------------
# exhaustive small scope

EXHAUSTIVE_NOTE = "extra phase 'large' (not exhaustive): 400 000 events merged by two keys, sums exact to the microsecond; extra phase 'small_scope': every list of <= L events whose data over keys a,b is any of {absent,'x',1,null,['x']}^2, with duration 0 or 1.5 s and id None or 0, against every key list ([a],[b],[a,b],[b,a]); all seven functions are judged on each (quick L=2: 10 100 lists x 4; thorough L=3)"


def extra_phases(tier, seed, jobs):
    large = [{"n": 400_000, "seed": seed * 13 + k} for k in range(1 if tier == "quick" else 4)]
    return [("small_scope", "phase_small_scope", [{"i": i, "n": jobs, "L": 2 if tier == "quick" else 3} for i in range(jobs)]), ("large", "phase_large", large)]


def _large(task):
    """A year's worth of events merged by key: the group sums must still be exact to the microsecond."""
    import random

    from aw_core.models import Event
    import aw_transform as T

    rnd = random.Random(task["seed"])
    apps = ["editor", "browser", "terminal"]
    evs, sums, total, t = [], {}, 0, 0
    for k in range(task["n"]):
        app = rnd.choice(apps)
        tags = rnd.choice([None, ["a"], ["a", "b"]])
        dur = rnd.choice([1, 999, rnd.randrange(1, 3_000_000_000), rnd.randrange(1, 10**7)])
        data = {"app": app}
        if tags is not None:
            data["$tags"] = list(tags)
        evs.append(Event(timestamp=gen.dt_utc(BASE_US + t * 1000), duration=timedelta(microseconds=dur), data=data))
        key = (app, None if tags is None else tuple(tags))
        sums[key] = sums.get(key, 0) + dur
        total += dur
        t += rnd.randrange(1, 5000)
    with sut(f"merge_events_by_keys on {len(evs)} events"):
        by_app = T.merge_events_by_keys(evs, ["app"])
        out = T.merge_events_by_keys(evs, ["app", "$tags"])
    app_sums = {}
    for (app, _), v in sums.items():
        app_sums[app] = app_sums.get(app, 0) + v
    got_app = {o.data.get("app"): gen.td_us(o.duration) for o in by_app}
    if len(by_app) != len(app_sums) or got_app != app_sums:
        raise Violation(f"merge_events_by_keys(['app']) on {len(evs)} events: group durations are not the exact sums: got {got_app}, exact {app_sums}")
    got = {}
    for o in out:
        key = (o.data.get("app"), None if "$tags" not in o.data else tuple(o.data["$tags"]))
        if key in got:
            raise Violation(f"merge_events_by_keys on {len(evs)} events returned two events for the combination {key}")
        got[key] = gen.td_us(o.duration)
    if got != sums:
        bad = [(k, got.get(k), v) for k, v in sums.items() if got.get(k) != v][:3]
        raise Violation(f"merge_events_by_keys on {len(evs)} events: group durations are not the exact sums (combination, got us, exact us): {bad}; total got {sum(got.values())} exact {total}")
    with sut(f"sum_durations on {len(evs)} events"):
        sd = T.sum_durations(evs)
    if abs(gen.td_us(sd) - total) > max(1, total // 10**9):
        raise Violation(f"sum_durations on {len(evs)} events = {gen.td_us(sd)} us, exact {total} us")
    return len(evs)


def phase_large(task):
    from vlib.runner import case_hash

    st_ = Stats()
    try:
        n = _large(task)
    except Violation as v:
        st_.failure = {"kind": "large", "case": task, "message": v.msg[:1500]}
        return st_
    st_.evals = n
    st_.classes["events"] = n
    st_.nontrivial.add(case_hash(task))
    return st_


def replay_large(task):
    _large(task)


def phase_small_scope(task):
    import itertools

    st_ = Stats()
    vals = ["__absent__", "x", 1, None, ["x"]]
    atoms = []
    for va in vals:
        for vb in vals:
            data = {}
            if va != "__absent__":
                data["a"] = va
            if vb != "__absent__":
                data["b"] = vb
            for dur, eid in ((0, None), (1_500_000, 0)):
                atoms.append({"ts_ms": len(atoms) % 3, "dur_us": dur, "data": data, "id": eid})
    k = 0
    for L in range(1, task["L"] + 1):
        for combo in itertools.product(range(len(atoms)), repeat=L):
            k += 1
            if k % task["n"] != task["i"]:
                continue
            evs = [json.loads(json.dumps(atoms[j])) for j in combo]
            for keys in (["a"], ["b"], ["a", "b"], ["b", "a"]):
                case = {"events": evs, "keys": keys, "chunk_vals": ["x", 1, "x"][: len(evs)], "filter_key": keys[0], "filter_vals": ["x", None], "count": 1}
                try:
                    run_case(case)
                except Violation as v:
                    st_.failure = {"kind": "case", "case": case, "message": v.msg}
                    return st_
                st_.evals += 7
            st_.cases += 1
    st_.classes["lists_enumerated"] = st_.cases
    st_.notes["lists_enumerated"] = st_.cases
    return st_
