"""C10 — flood closes exactly the short gaps and never loses or overlaps time."""
from hypothesis import strategies as st

from vlib import intervals as iv
from vlib.runner import Stats, Violation, case_hash, sut

ID = "C10"
DETERMINISTIC = True  # pure in-memory functions judged by a pure oracle: see runner (a failure seen once counts)
RULE = (
    "case = non-overlapping layout of 0..9 events with distinct timestamps on a ms grid (gaps from {0,1,2,3,4 ms, long}, lengths incl. 0, "
    "labels {a,b}), shuffled, x pulsetime from {0,1,2,3 ms, 1 s, 5 s}, or exactly one of the layout's gaps, or any whole number of ms up to 7 s. Oracle on integers: output all positive length, pairwise non-overlapping; "
    "union(output) == union(input) + every gap g with 0 < g <= P between consecutive inputs, exactly (so longer gaps are intact and no other time is added); "
    "per label, each input interval lies inside the union of that label's outputs; input list/events deep-equal before/after. "
    "Non-trivial = >= 3 events with at least one gap <= P (and > 0) and one gap > P."
)
ASSUMPTIONS = ["millisecond grid; pulsetime a whole number of ms given as float seconds", "inputs satisfy the property's precondition: no positive overlap, distinct timestamps"]


def budget(tier):
    return 1500 if tier == "quick" else 40000


_gaps = st.one_of(st.sampled_from([0, 0, 1, 1, 2, 2, 3, 3, 4, 4, 5, 1000, 1001, 4999, 5000, 5001, 60000, 50, 99, 86_400_000, 86_402_000, 2 * 86_400_000 + 1]), st.integers(0, 7000))
_lens = st.one_of(st.sampled_from([0, 1, 1, 2, 3, 5, 1000]), st.integers(0, 20), st.integers(0, 6000))


@st.composite
def strategy(draw, tier="quick"):
    lay = draw(iv.nonoverlap_layout(max_n=9, distinct_starts=True, gaps=_gaps, lens=_lens))
    P = draw(st.sampled_from([0, 1, 2, 3, 3, 4, 1000, 5000, 5000]))
    srt_ = sorted(lay, key=lambda e: e["s"])
    gaps_ = [b["s"] - (a["s"] + a["d"]) for a, b in zip(srt_, srt_[1:]) if b["s"] - (a["s"] + a["d"]) > 0]
    pm = draw(st.integers(0, 3))
    if pm == 0 and gaps_:
        P = draw(st.sampled_from(gaps_))  # a gap exactly at the pulsetime, whatever odd value that is (1.001 s, 4.06 s, ...)
    elif pm == 1:
        P = draw(st.integers(0, 7000))
    return {"events": iv.shuffled(draw, lay), "P_ms": P}


def run_case(case):
    from aw_core.models import Event
    from aw_transform import flood

    evs, P = case["events"], case["P_ms"]
    ein = iv.to_events(evs, Event)
    snap = iv.snapshot(ein)
    with sut("flood"):
        out = flood(ein, pulsetime=P / 1000)
    if iv.snapshot(ein) != snap:
        raise Violation(f"flood modified its input: {evs}")
    srt = sorted(evs, key=lambda e: e["s"])
    ivs = [(e["s"], e["s"] + e["d"]) for e in srt]
    expected = list(ivs)
    short = long_ = 0
    for (s1, e1), (s2, e2) in zip(ivs, ivs[1:]):
        g = s2 - e1
        if 0 < g <= P:
            expected.append((e1, s2))
            short += 1
        elif g > P:
            long_ += 1
    exp_cover = [p for p in iv.merge_closed(expected) if p[1] > p[0]]
    got = []
    for o in out:
        try:
            s, e = iv.from_event(o)
        except ValueError as ex:
            raise Violation(f"output off the ms grid: {ex}")
        if e <= s:
            raise Violation(f"flood returned a non-positive-length event ({s},{e}); input {srt}, P={P}")
        got.append((s, e, o.data.get("l")))
    gs = sorted(got)
    for x, y in zip(gs, gs[1:]):
        if y[0] < x[1]:
            raise Violation(f"flood output overlaps: {x} and {y}; input {srt}, P={P}")
    got_cover = iv.merge_closed([(s, e) for s, e, _ in got])
    if got_cover != exp_cover:
        raise Violation(f"flood({[(e['s'], e['s'] + e['d'], e['l']) for e in srt]}, P={P}ms) covers {got_cover}; input plus short gaps is {exp_cover}; output {gs}")
    for e in srt:
        if e["d"] > 0:
            same = [(s, t) for s, t, l in got if l == e["l"]]
            if not iv.covered_by((e["s"], e["s"] + e["d"]), same):
                raise Violation(f"label {e['l']!r} lost time: input {(e['s'], e['s'] + e['d'])} not inside its outputs {same}; input {srt}, P={P}")
    classes = []
    if short:
        classes.append("short_gap")
    if long_:
        classes.append("long_gap")
    if any(e["d"] == 0 for e in evs):
        classes.append("zero_length")
    if any(a["l"] == b["l"] for a, b in zip(srt, srt[1:])):
        classes.append("equal_neighbours")
    if any(s2 - e1 == P and P > 0 for (s1, e1), (s2, e2) in zip(ivs, ivs[1:])):
        classes.append("gap_eq_pulsetime")
    return {"nontrivial": len(evs) >= 3 and short > 0 and long_ > 0, "classes": classes, "evals": 1}


# ---------------------------------------------------------------------------
# exhaustive small scope

EXHAUSTIVE_NOTE = "extra phase 'large' (not exhaustive): 25 000-event inputs, sorted and reversed; extra phase 'small_scope': flood on every non-overlapping layout with distinct timestamps of <= N events with integer ms edges in [0, G], every labelling over {a,b}, every pulsetime in {0,1,2,3} ms, given in sorted and in reversed order (quick G=5,N=3; thorough G=7,N=4)"


def extra_phases(tier, seed, jobs):
    g, n = (5, 3) if tier == "quick" else (7, 4)
    large = [{"n": 25_000, "seed": seed * 31 + k, "reverse": bool(k % 2)} for k in range(2 if tier == "quick" else 8)]
    return [
        ("small_scope", "phase_small_scope", [{"i": i, "n": jobs, "grid": g, "max_n": n} for i in range(jobs)]),
        ("large", "phase_large", large),
    ]


def _large_events(task):
    """A bucket's worth of events: 2..4 s long, gaps of 1..5 s, now and then a minute; labels in runs."""
    import random

    rnd = random.Random(task["seed"])
    evs, t = [], 0
    label = "a"
    for _ in range(task["n"]):
        d = rnd.choice([2000, 3000, 4000])
        if rnd.random() < 0.3:
            label = rnd.choice("abc")
        evs.append({"s": t, "d": d, "l": label})
        t += d + (60_000 if rnd.random() < 0.02 else rnd.choice([1000, 2000, 3000, 4000, 5000]))
    return evs[::-1] if task["reverse"] else evs


def _check_large(task):
    """The same claims as run_case with near-linear bookkeeping (run_case compares every event with every output)."""
    import bisect

    from aw_core.models import Event
    from aw_transform import flood

    evs, P = _large_events(task), 5000
    ein = iv.to_events(evs, Event)
    snap = iv.snapshot(ein)
    with sut("flood (large input)"):
        out = flood(ein, pulsetime=P / 1000)
    if iv.snapshot(ein) != snap:
        raise Violation(f"flood modified its input ({len(evs)} events)")
    srt = sorted(evs, key=lambda e: e["s"])
    expected = [(e["s"], e["s"] + e["d"]) for e in srt]
    short = []
    for a, b in zip(srt, srt[1:]):
        g = b["s"] - (a["s"] + a["d"])
        if 0 < g <= P:
            expected.append((a["s"] + a["d"], b["s"]))
            short.append((a["s"] + a["d"], b["s"]))
    exp_cover = iv.merge_closed(expected)
    got = sorted(iv.from_event(o) + (o.data.get("l"),) for o in out)
    for x, y in zip(got, got[1:]):
        if y[0] < x[1]:
            raise Violation(f"flood output overlaps on a {len(evs)}-event input: {x} and {y}")
    if any(e <= s for s, e, _ in got):
        raise Violation(f"flood returned a non-positive-length event on a {len(evs)}-event input")
    got_cover = iv.merge_closed([(s, e) for s, e, _ in got])
    if got_cover != exp_cover:
        gc = set(got_cover)
        missing = [p for p in exp_cover if p not in gc][:3]
        raise Violation(
            f"flood on {len(evs)} events (2-4 s long, gaps 1-5 s or 60 s, pulsetime 5 s, {'reversed' if task['reverse'] else 'sorted'} input): covered time differs from input plus short gaps: "
            f"{len(got_cover)} covered stretches, expected {len(exp_cover)}; first expected stretches not found: {missing}"
        )
    by_label = {}
    for s, e, l in got:
        by_label.setdefault(l, []).append((s, e))
    merged = {l: iv.merge_closed(v) for l, v in by_label.items()}
    starts = {l: [p[0] for p in v] for l, v in merged.items()}
    for e in srt:
        m = merged.get(e["l"], [])
        k = bisect.bisect_right(starts.get(e["l"], []), e["s"]) - 1
        if k < 0 or not (m[k][0] <= e["s"] and e["s"] + e["d"] <= m[k][1]):
            raise Violation(f"label {e['l']!r} lost time on a {len(evs)}-event input: {(e['s'], e['s'] + e['d'])} is not inside its outputs")
    return len(evs), len(short)


def phase_large(task):
    st_ = Stats()
    try:
        n, short = _check_large(task)
    except Violation as v:
        st_.failure = {"kind": "large", "case": task, "message": v.msg}
        return st_
    st_.evals = n
    st_.classes["events"] = n
    st_.classes["short_gaps"] = short
    st_.nontrivial.add(case_hash(task))
    return st_


def replay_large(task):
    _check_large(task)


def phase_small_scope(task):
    import itertools

    st_ = Stats()
    lay = iv.all_layouts(task["grid"], task["max_n"], distinct_starts=True)
    for a in iv.shard(lay, task["i"], task["n"]):
        for labels in itertools.product("ab", repeat=len(a)):
            evs = [{"s": s, "d": e - s, "l": l} for (s, e), l in zip(a, labels)]
            for P in (0, 1, 2, 3):
                for order in (evs, evs[::-1]):
                    case = {"events": order, "P_ms": P}
                    try:
                        run_case(case)
                    except Violation as v:
                        st_.failure = {"kind": "case", "case": case, "message": v.msg}
                        return st_
                    st_.evals += 1
    st_.classes["cases_enumerated"] = st_.evals
    st_.notes["cases_enumerated"] = st_.evals
    return st_
