"""C19 — annotating transforms add their keys and leave everything else alone."""
import json
import re
from datetime import timedelta

from hypothesis import strategies as st

from vlib import gen
from vlib.runner import Violation, plain_stack, sut

ID = "C19"
DETERMINISTIC = True  # pure in-memory functions judged by a pure oracle: see runner (a failure seen once counts)
RULE = (
    "case = list of 0..8 events with data over {title, app, url, n} (strings incl. unicode and mixed case, ints, null, lists, missing) x 0..6 rules "
    "(regex from a pool of literals/alternations/anchors/classes/empty/absent, ignore_case, select_keys absent | existing | missing | non-string valued) x "
    "categories (depth 1..3, equal depths frequent) and tags. categorize and tag are exercised both directly and through the query built-ins of the same name. Oracle for all four transforms: same length/order/timestamps/durations/ids and every data key "
    "the transform does not own unchanged; categorize == deepest matching category, last wins ties, ['Uncategorized'] if none; tag == matching tags in rule "
    "order; reference match = non-empty regex found by re.search (IGNORECASE if asked) in some selected value that is a str; split_url_events adds its six keys "
    "iff 'url' is present (component values are not judged: the property does not state them); simplify_string leaves its input unmodified. "
    "One case in six gives one event an unrelated value nested 120, 600 or 900 levels deep (valid JSON; class 'deeply_nested_value') for categorize, tag and split_url_events. "
    "Non-trivial = two matching rules of equal depth for some event, or select_keys hitting a missing or non-string value."
)
ASSUMPTIONS = [
    "rule regexes are valid Python regexes; Python's re is the shared matcher",
    "select_keys=[] is not generated (the property does not say whether an empty selection means everything or nothing)",
    "url values are strings built from a small grammar; title values are strings for simplify_string",
    "simplify_string is not given the deeply nested values: it copies its input with copy.deepcopy, whose recursion depth is the interpreter's limit, on the unchanged tree too",
]
BASE_US = 1_600_000_000_000_000

WORDS = ["\u0131stanbul", "\u017fun", "\u212aelvin", "\u00b5m", "\u03c2\u03c3", "Firefox", "firefox", "FIREFOX", "vim", "Vim", "GitHub", "github.com", "ÄÖÜ", "äöü", "日本語", "a.b", "a+b", "(2) Facebook", "● file.py", "* gedit", "FPS: 59.2", "", " ", "İstanbul", "straße", "STRASSE"]
REGEXES = ["Firefox", "firefox", "vim|Vim", "^Git", "hub$", "a.b", r"a\+b", "[A-Z]+", r"\d+", "äöü", "日本", "fire", ".", "x^", "(?:)", "i", "ß", "ss", r"\(2\)", "",
           # regexes that could run across the border between two values if those were ever searched as one text
           "istanbul", "sun", "kelvin", "\u03bcm", "\u03c3\u03c3", r"^github\.com$", r"^https?$", r"^example\.com$",
           r"x\s", r"m\s+", r"[^a-z]G", r"\Wf", r"vim\nFire", r"(?s)m.F", r"^$", r"\A\Z", r"b$"]
URL_KEYS = ["$protocol", "$domain", "$path", "$params", "$options", "$identifier"]


def budget(tier):
    return 1000 if tier == "quick" else 25000


def _value():
    return st.one_of(st.sampled_from(WORDS), st.sampled_from(WORDS), st.integers(0, 3), st.none(), st.lists(st.sampled_from(WORDS), max_size=2))


@st.composite
def _url(draw):
    scheme = draw(st.sampled_from(["http", "https", "ftp", "chrome-extension", ""]))
    www = draw(st.booleans())
    host = draw(st.sampled_from(["example.com", "github.com", "a.b.c", "localhost", "www.com", "xn--bcher-kva.example"]))
    port = draw(st.sampled_from(["", "", ":80", ":8080"]))
    path = draw(st.sampled_from(["", "/", "/a/b", "/a%20b/", "/index.html", "/www.x"]))
    params = draw(st.sampled_from(["", "", "p=1"]))
    query = draw(st.sampled_from(["", "q=1", "a=1&b=2", "q=%C3%A4"]))
    frag = draw(st.sampled_from(["", "top", "a/b"]))
    return {"scheme": scheme, "www": www, "host": host, "port": port, "path": path, "params": params, "query": query, "frag": frag}


def _url_str(u):
    s = ""
    if u["scheme"]:
        s += u["scheme"] + ":"
    s += "//" + ("www." if u["www"] else "") + u["host"] + u["port"] + u["path"]
    if u["params"]:
        s += ";" + u["params"]
    if u["query"]:
        s += "?" + u["query"]
    if u["frag"]:
        s += "#" + u["frag"]
    return s


@st.composite
def strategy(draw, tier="quick"):
    n = draw(st.integers(0, 8))
    evs = []
    for i in range(n):
        data = {}
        if draw(st.integers(0, 4)) > 0:
            data["title"] = draw(st.sampled_from(WORDS)) if draw(st.integers(0, 3)) > 0 else "".join(draw(st.lists(st.sampled_from(WORDS + [" ", "-"]), max_size=3)))
        if draw(st.booleans()):
            data["app"] = draw(_value())
        if draw(st.integers(0, 2)) == 0:
            data["n"] = draw(_value())
        url = draw(_url()) if draw(st.integers(0, 2)) > 0 else None
        if draw(st.integers(0, 9)) == 0:
            data["$category"] = ["Old"]
        evs.append({"presplit": draw(st.integers(0, 3)) == 0, "id": draw(st.one_of(st.none(), st.integers(0, 99))), "ts_ms": draw(st.integers(0, 10**6)), "dur_us": draw(st.integers(0, 10**7)), "data": data, "url": url})
    nr = draw(st.integers(0, 6))
    rules = []
    cats = [["A"], ["B"], ["A", "x"], ["B", "y"], ["A", "x", "1"], ["B", "y", "2"], ["Uncategorized"], ["C"]]
    for _ in range(nr):
        r = {}
        rx = draw(st.one_of(st.sampled_from(REGEXES), st.none()))
        if rx is not None:
            r["regex"] = rx
        ic = draw(st.sampled_from([None, True, False]))
        if ic is not None:
            r["ignore_case"] = ic
        sk = draw(st.sampled_from([None, None, ["title"], ["app"], ["n"], ["missing"], ["title", "app"], ["missing", "title"], ["n", "app"]]))
        if sk is not None:
            r["select_keys"] = sk
        rules.append({"cat": draw(st.sampled_from(cats)), "tag": draw(st.sampled_from(["t1", "t2", "work", "fun", "t1"])), "rule": r})
    # valid JSON data may be nested far deeper than anything a person writes (a dumped page tree, a serialised AST): the annotating
    # transforms never look inside unrelated values, so the depth of such a value must not matter to them.  Only the depth is drawn;
    # the value is built in _data.  (simplify_string is left out: it has always worked on copy.deepcopy of its input, see ASSUMPTIONS.)
    if evs and draw(st.integers(0, 5)) == 0:
        evs[draw(st.integers(0, len(evs) - 1))]["deep"] = draw(st.sampled_from([120, 600, 900]))
    return {"events": evs, "rules": rules, "simplify_key": draw(st.sampled_from(["title", "title", "k"]))}


def _deep(n):
    x = "leaf"
    for i in range(n):
        x = [x, i] if i % 2 else {"k": x}
    return x


def _data(e, deep=True):
    d = json.loads(json.dumps(e["data"]))
    if deep and e.get("deep"):
        d["blob"] = _deep(e["deep"])
    if e["url"] is not None:
        d["url"] = _url_str(e["url"])
        if e.get("presplit"):
            # an event that already went through a URL split (or carries such keys for any other reason): ordinary data for everybody else
            d["$domain"] = e["url"]["host"]
            d["$protocol"] = e["url"]["scheme"]
    return d


def _mk(Event, evs, extra=None, deep=True):
    out = []
    for e in evs:
        d = _data(e, deep)
        if extra:
            d.update(extra(e))
        out.append(Event(id=e["id"], timestamp=gen.dt_utc(BASE_US + e["ts_ms"] * 1000), duration=timedelta(microseconds=e["dur_us"]), data=d))
    return out


def _ref_match(rule, data):
    rx = rule.get("regex")
    if not rx:
        return False
    flags = re.UNICODE | (re.IGNORECASE if rule.get("ignore_case", False) else 0)
    sk = rule.get("select_keys")
    vals = [data.get(k) for k in sk] if sk else list(data.values())
    return any(isinstance(v, str) and re.search(rx, v, flags) is not None for v in vals)


def _frame(name, evs, datas, out, owned):
    if not isinstance(out, list) or len(out) != len(evs):
        raise Violation(f"{name} returned {len(out) if isinstance(out, list) else type(out)} events for {len(evs)}")
    for e, d, o in zip(evs, datas, out):
        if o.id != e["id"] or gen.to_us(o.timestamp) != BASE_US + e["ts_ms"] * 1000 or gen.td_us(o.duration) != e["dur_us"]:
            raise Violation(f"{name} changed id/timestamp/duration or order: expected {(e['id'], e['ts_ms'], e['dur_us'])}, got {(o.id, o.timestamp, o.duration)}")
        rest_o = {k: v for k, v in o.data.items() if k not in owned}
        rest_d = {k: v for k, v in d.items() if k not in owned}
        if rest_o != rest_d:
            raise Violation(f"{name} changed unrelated data: {repr(rest_d)[:2000]} -> {repr(rest_o)[:2000]}")


def run_case(case):
    from aw_core.models import Event
    from aw_transform import Rule, categorize, simplify_string, split_url_events, tag

    evs, rules = case["events"], case["rules"]
    datas = [_data(e) for e in evs]
    tie = sel_miss = False
    deep = any(e.get("deep") for e in evs)
    # ---- categorize
    with sut("Rule()/categorize"), plain_stack(deep):
        out = categorize(_mk(Event, evs), [(r["cat"], Rule(dict(r["rule"]))) for r in rules])
    _frame("categorize", evs, datas, out, {"$category"})
    for d, o in zip(datas, out):
        matching = [r["cat"] for r in rules if _ref_match(r["rule"], d)]
        exp = ["Uncategorized"]
        for c in matching:
            if len(c) >= len(exp):
                exp = c
        if len([c for c in matching if len(c) == len(exp)]) >= 2:
            tie = True
        if o.data.get("$category") != exp:
            raise Violation(f"categorize: data {d!r} rules {rules!r}: $category={o.data.get('$category')!r}, expected {exp!r}")
    # ---- tag
    with sut("Rule()/tag"), plain_stack(deep):
        out = tag(_mk(Event, evs), [(r["tag"], Rule(dict(r["rule"]))) for r in rules])
    _frame("tag", evs, datas, out, {"$tags"})
    for d, o in zip(datas, out):
        exp = [r["tag"] for r in rules if _ref_match(r["rule"], d)]
        if o.data.get("$tags") != exp:
            raise Violation(f"tag: data {d!r} rules {rules!r}: $tags={o.data.get('$tags')!r}, expected {exp!r}")
    # ---- the same two transforms reached through the query built-ins (rule dicts instead of Rule objects)
    from aw_query.functions import functions as _qf

    with sut("query built-ins categorize/tag"), plain_stack(deep):
        outc = _qf["categorize"](None, {}, _mk(Event, evs), [[list(r["cat"]), dict(r["rule"])] for r in rules])
        outt = _qf["tag"](None, {}, _mk(Event, evs), [[r["tag"], dict(r["rule"])] for r in rules])
    _frame("categorize (query built-in)", evs, datas, outc, {"$category"})
    _frame("tag (query built-in)", evs, datas, outt, {"$tags"})
    for d, oc, ot in zip(datas, outc, outt):
        matching = [r for r in rules if _ref_match(r["rule"], d)]
        exp = ["Uncategorized"]
        for r in matching:
            if len(r["cat"]) >= len(exp):
                exp = r["cat"]
        if oc.data.get("$category") != exp:
            raise Violation(f"categorize via the query built-in: data {d!r} rules {rules!r}: $category={oc.data.get('$category')!r}, expected {exp!r}")
        if ot.data.get("$tags") != [r["tag"] for r in matching]:
            raise Violation(f"tag via the query built-in: data {d!r} rules {rules!r}: $tags={ot.data.get('$tags')!r}, expected {[r['tag'] for r in matching]!r}")
    for r in rules:
        sk = r["rule"].get("select_keys")
        if sk and r["rule"].get("regex"):
            for d in datas:
                if any(not isinstance(d.get(k), str) for k in sk):
                    sel_miss = True
    # ---- split_url_events
    with sut("split_url_events"), plain_stack(deep):
        out = split_url_events(_mk(Event, evs))
    _frame("split_url_events", evs, datas, out, set(URL_KEYS))
    for e, o in zip(evs, out):
        present = [k for k in URL_KEYS if k in o.data]
        if e["url"] is None:
            if present:
                raise Violation(f"split_url_events added {present} to an event without url")
        else:
            if present != URL_KEYS and sorted(present) != sorted(URL_KEYS):
                raise Violation(f"split_url_events on {_url_str(e['url'])!r} set only {present}")
            if not all(isinstance(o.data[k], str) for k in URL_KEYS):
                raise Violation(f"split_url_events on {_url_str(e['url'])!r} set non-string components")
    # ---- simplify_string
    key = case["simplify_key"]
    extra = (lambda e: {}) if key == "title" else (lambda e: {key: e["data"].get("title", "zz")})
    sevs = [e for e in evs if key != "title" or isinstance(e["data"].get("title"), str)]
    inp = _mk(Event, sevs, extra, deep=False)
    sdatas = [dict(_data(e, deep=False), **extra(e)) for e in sevs]
    snap = [(x.id, x.timestamp, x.duration, json.dumps(x.data, sort_keys=True)) for x in inp]
    with sut("simplify_string"):
        out = simplify_string(inp, key=key)
    if [(x.id, x.timestamp, x.duration, json.dumps(x.data, sort_keys=True)) for x in inp] != snap:
        raise Violation("simplify_string modified its input")
    _frame("simplify_string", sevs, sdatas, out, {key})
    for d, o in zip(sdatas, out):
        if not isinstance(o.data.get(key), str):
            raise Violation("simplify_string removed or mistyped its key")
    classes = []
    if tie:
        classes.append("equal_depth_tie")
    if sel_miss:
        classes.append("select_missing_or_nonstring")
    if any(e["url"] for e in evs):
        classes.append("has_url")
    if any(r["rule"].get("regex") == "" for r in rules):
        classes.append("empty_regex")
    if any(r["rule"].get("ignore_case") for r in rules):
        classes.append("ignore_case")
    if any(e.get("deep") for e in evs):
        classes.append("deeply_nested_value")
    return {"nontrivial": tie or sel_miss, "classes": classes, "evals": 4}
