"""C11 — a query means what its text says: literals, variables and calls compose."""
import json
from datetime import timedelta

from hypothesis import strategies as st

from vlib import gen, qlang, stores
from vlib.runner import Violation

ID = "C11"
RULE = (
    "case = small generated memory datastore (2 buckets, 0..6 events each with app/title/url/status keys) x typed program of 1..6 statements from the "
    "language's grammar (all 22 built-ins; 0..3 arguments each being a literal, a variable or a nested call; list/dict literals nested to depth 4 with distinct "
    "keys; strings in either quote style over an alphabet containing ()[]{},:=' \" space newline and non-ASCII; variable names that prefix-match built-ins; "
    "rebinding and aliasing) x a whitespace vector for the separator holes. Oracle: (1) reference_parse(render(ast)) == ast; (2) aw_query.query(compact text) == "
    "reference_eval(ast), the reference applying the underlying transform / datastore read to ALL evaluated arguments in written order (if the reference raises, "
    "the implementation must raise too); (3) the rendering with whitespace around , : = ; gives the same value. Non-trivial = a call with >= 2 arguments of which a "
    "non-last one is a bracketed token (list, dict or call), or a string literal containing a bracket/comma/quote/'='."
)
ASSUMPTIONS = [
    "';' and backslashes other than an escaped own-quote are not generated inside strings (the language has no syntax for them)",
    "whitespace is only inserted around the separators , : = ; (not after opening or before closing brackets)",
    "the reference evaluator calls aw_transform functions and Bucket.get directly; those are judged by C03/C08/C09/C10/C15/C16/C19",
    "true/false/True/False/NAME/STARTTIME/ENDTIME are predefined names of the language",
]
BASE_US = 1_650_000_000_000_000
BUCKETS = ["aw-watcher-window_host1", "aw-watcher-afk_host1"]


def budget(tier):
    return 800 if tier == "quick" else 15000


# payloads of realistic size as well: a tracking URL, a title as long as browsers make them (several hundred characters of stored JSON)
LONG_URL = "https://www.example.com/" + "segment/" * 70 + "page.html?utm_source=" + "x" * 90 + "#top"
LONG_TITLE = "GitHub - " + "a very long window title " * 24 + "- Firefox"


def _event():
    return st.fixed_dictionaries(
        {
            "slot": st.integers(0, 20),
            "dur_s": st.sampled_from([0, 1, 2, 5, 10]),
            "data": st.fixed_dictionaries(
                {},
                optional={
                    "app": st.sampled_from(["Firefox", "vim", "x"]),
                    "title": st.sampled_from(qlang.VALS + [LONG_TITLE]),
                    "url": st.sampled_from(["http://www.github.com/a?b#c", "https://example.com", LONG_URL]),
                    "status": st.sampled_from(["afk", "not-afk"]),
                },
            ),
        }
    )


@st.composite
def strategy(draw, tier="quick"):
    store = [draw(st.lists(_event(), max_size=6)) for _ in BUCKETS]
    prog = draw(qlang.programs(BUCKETS))
    if draw(st.integers(0, 7)) == 0:
        # the same long literal text evaluated twice with a variable rebound in between
        pad = {"t": "str", "v": "p" * draw(st.sampled_from([10, 70, 200])), "q": '"'}
        v1, v2 = draw(qlang.lit_int()), draw(qlang.lit_int())
        lit = draw(st.sampled_from(["list", "dict", "call"]))
        if lit == "list":
            e = {"t": "list", "v": [{"t": "var", "v": "a"}, pad, {"t": "list", "v": [{"t": "var", "v": "a"}]}]}
        elif lit == "dict":
            e = {"t": "dict", "v": [[{"t": "str", "v": "k", "q": "'"}, {"t": "var", "v": "a"}], [{"t": "str", "v": "pad", "q": '"'}, pad]]}
        else:
            e = {"t": "list", "v": [{"t": "call", "f": "limit_events", "a": [{"t": "list", "v": [pad, pad, pad]}, {"t": "var", "v": "a"}]}]}
        prog = [{"var": "a", "e": v1}, {"var": "x9", "e": e}, {"var": "a", "e": v2}] + prog[:-1] + [{"var": "RETURN", "e": {"t": "list", "v": [e, {"t": "var", "v": "x9"}]}}]
    ws = draw(st.lists(st.integers(0, 4), min_size=1, max_size=12))
    if all(w == 0 for w in ws):
        ws[0] = 1
    return {"store": store, "prog": prog, "ws": ws, "junk_first": draw(st.sampled_from([0, 0, 0, 0, 0, 1, 1, 2]))}


def known_key(case, v):
    return v.key


def build_store(ds, store, Event):
    for bid, evs in zip(BUCKETS, store):
        b = ds.create_bucket(bid, type="t", client="c", hostname="host1", created=gen.dt_utc(BASE_US))
        for e in evs:
            b.insert(Event(timestamp=gen.dt_utc(BASE_US + e["slot"] * 10**6), duration=timedelta(seconds=e["dur_s"]), data=json.loads(json.dumps(e["data"]))))


def nontrivial(prog):
    for n in qlang.prog_nodes(prog):
        if n["t"] == "call" and len(n["a"]) >= 2 and any(a["t"] in ("list", "dict", "call") for a in n["a"][:-1]):
            return True
        if n["t"] == "str" and any(c in n["v"] for c in "()[]{},'\"="):
            return True
    return False


def run_case(case):
    from aw_core.models import Event
    from aw_query import query
    from aw_query.exceptions import QueryException

    prog, ws = case["prog"], case["ws"]
    compact = qlang.render(prog)
    spaced = qlang.render(prog, ws)
    for text in (compact, spaced):
        try:
            back = qlang.reference_parse(text)
        except qlang.RefParseError as ex:
            raise RuntimeError(f"harness: reference parser rejects rendered program {text!r}: {ex}")
        if back != prog:
            raise RuntimeError(f"harness: reference parser disagrees with renderer on {text!r}")
    start, end = gen.dt_utc(BASE_US - 3600 * 10**6), gen.dt_utc(BASE_US + 3600 * 10**6)
    with stores.store("memory") as ds:
        build_store(ds, case["store"], Event)
        try:
            exp = ("value", qlang.canon_value(qlang.reference_eval(prog, ds, "q", start, end)))
        except Exception as ex:
            exp = ("raises", type(ex).__name__)
        # earlier queries in the same process - rejected ones included - are no business of this program
        import gc

        gc_was = gc.isenabled()
        gc.disable()  # (a collection half-way down a 1100-deep parse only prints noise from the collector's own callbacks)
        try:
            for junk in (["RETURN=[[[[1", "a=nop(;RETURN={'k':[1,}"], ["RETURN=" + "[" * 1100 + "]" * 1100])[: case.get("junk_first", 0)]:
                for j in junk:
                    try:
                        query("q", j, start, end, ds)
                    except Exception:
                        pass
        finally:
            if gc_was:
                gc.enable()
        outs = []
        for text in (compact, spaced):
            try:
                outs.append(("value", qlang.canon_value(query("q", text, start, end, ds))))
            except Exception as ex:
                outs.append(("raises", f"{type(ex).__name__}: {ex}"))
    got, got_sp = outs
    if exp[0] == "value":
        if got != exp:
            key = None
            if got[0] == "raises" and "invalid amount of arguments" in got[1]:
                key = "args_lost_after_bracketed_argument"
            raise Violation(f"query {compact!r} -> {_short(got)}; the text denotes {_short(exp)}", key=key)
        if got_sp != exp:
            raise Violation(f"spacing changes the result: {compact!r} -> {_short(got)} but {spaced!r} -> {_short(got_sp)}")
    else:
        for text, g in ((compact, got), (spaced, got_sp)):
            if g[0] != "raises":
                raise Violation(f"query {text!r} returned {_short(g)} although evaluating its text raises {exp[1]}")
    calls = [n for n in qlang.prog_nodes(prog) if n["t"] == "call"]
    classes = ["result_" + exp[0]]
    if len(prog) > 1:
        classes.append("multi_statement")
    if any(n["t"] == "var" for n in qlang.prog_nodes(prog)):
        classes.append("uses_variable")
    if any(len(c["a"]) >= 3 for c in calls):
        classes.append("three_args")
    if any(a["t"] == "call" for c in calls for a in c["a"]):
        classes.append("nested_call")
    for c in calls:
        classes.append("f:" + c["f"])
    return {"nontrivial": nontrivial(prog), "classes": sorted(set(classes)), "evals": 2}


def _short(x):
    s = json.dumps(x, default=repr)
    return s if len(s) < 400 else s[:400] + "..."
