"""C12 — queries only read: bucket data is unchanged and scoped to the query window."""
import json

from hypothesis import strategies as st

from props import c11
from vlib import gen, qlang, stores
from vlib.runner import Violation, sut

ID = "C12"
RULE = (
    "case = backend x generated store (2 buckets, 0..6 events each with app/title/url/status keys) x program from the C11 generator biased towards the in-place "
    "annotators (categorize, tag, split_url_events, period_union, flood, simplify) x optional corruption making it raise midway (unknown function / wrong argument "
    "type / undefined variable placed after an annotator has run on the direct result of query_bucket) x query window (any UTC offsets, sub-ms edges, zero width; edges biased to within +-3 ms of the instants where stored events start or end). "
    "Oracle: API dump of every bucket before == after, whether the query returned or raised; RETURN=query_bucket(b) - alone and appended to the generated program, i.e. after its annotators ran in the same query - equals ds[b].get(starttime=S,endtime=E) event "
    "for event and query_bucket_eventcount(b) equals ds[b].get_eventcount(S,E) with S/E the instants handed to query(); in half the cases an older event of each bucket is then rewritten, re-timed or exchanged (size and newest event unchanged) and the very same queries must again equal the direct reads. "
    "Non-trivial = the program applies an in-place annotator to the direct result of query_bucket, or raises after having done so."
)
ASSUMPTIONS = ["a failing query may raise anything; only the store's contents are judged", "about one window in eight has its end before its start (the comparison with the direct read applies all the same)", "the present, as seen by the query modules through their `datetime` name, is pinned inside the range of the stored events"]
ANNOT = {"categorize", "tag", "split_url_events", "period_union", "flood", "simplify_window_titles", "chunk_events_by_key", "merge_events_by_keys"}
BASE_US = c11.BASE_US
BUCKETS = c11.BUCKETS


def budget(tier):
    return 500 if tier == "quick" else 8000


@st.composite
def strategy(draw, tier="quick"):
    store = [draw(st.lists(c11._event(), max_size=6)) for _ in BUCKETS]
    prog = draw(qlang.programs(BUCKETS, annotator_bias=True))
    corrupt = draw(st.one_of(st.none(), st.fixed_dictionaries({"kind": st.sampled_from(["unknown_function", "bad_type", "undefined_var", "bad_arity"]), "at": st.integers(0, 6), "annot": st.sampled_from(["categorize", "tag", "split_url_events", "flood"]), "b": st.integers(0, 1)})))
    s = draw(st.one_of(st.integers(-2 * 10**6, 22 * 10**6), st.integers(0, 22000).map(lambda m: m * 1000)))
    ln = draw(st.one_of(st.sampled_from([0, 1, 999, 1000]), st.integers(0, 25 * 10**6)))
    # window edges a few ms (and sub-ms) around the instants where stored events start or end
    edges = sorted({e["slot"] * 10**6 for evs in store for e in evs} | {(e["slot"] + e["dur_s"]) * 10**6 for evs in store for e in evs})
    if edges and draw(st.booleans()):
        near = st.tuples(st.sampled_from(edges), st.sampled_from([-3000, -2500, -2000, -1500, -1000, -999, -1, 0, 1, 999, 1000, 1001, 2000, 3000])).map(lambda t: t[0] + t[1])
        which = draw(st.integers(0, 2))
        if which in (0, 2):
            e_abs = draw(near)
            ln = max(0, e_abs - s)
            if e_abs < s:
                s, ln = e_abs, 0
        if which in (1, 2):
            s2 = draw(near)
            end = s + ln
            s = min(s2, end)
            ln = end - s
    return {
        "backend": draw(st.sampled_from(stores.BACKENDS)),
        "store": store,
        "prog": prog,
        "corrupt": corrupt,
        "win": {"s": s, "len": ln, "tz": draw(gen.offsets()), "tz2": draw(gen.offsets())},
        "qb": draw(st.integers(0, 1)),
        "inverted": draw(st.integers(0, 7)) == 0,
        "now_s": draw(st.sampled_from([10, 10, 5, 15, 100000])),
        "edit": draw(st.one_of(st.none(), st.integers(0, 11))),
    }


def known_key(case, v):
    return v.key


def _text(case):
    stmts = [qlang.render([s]) for s in case["prog"]]
    c = case["corrupt"]
    if c:
        b = BUCKETS[c["b"]]
        if c["annot"] in ("categorize", "tag"):
            cls = '[["Work"], {"regex": "."}]' if c["annot"] == "categorize" else '["t", {"regex": "."}]'
            pre = f'pre_ = {c["annot"]}(query_bucket("{b}"), [{cls}])'
        else:
            pre = f'pre_ = {c["annot"]}(query_bucket("{b}"))'
        bad = {
            "unknown_function": "zz_ = no_such_function(pre_)",
            "bad_type": 'zz_ = filter_keyvals(pre_, 1, "x")',
            "undefined_var": "zz_ = sort_by_timestamp(never_defined)",
            "bad_arity": "zz_ = sort_by_timestamp(pre_, pre_, 1)",
        }[c["kind"]]
        k = min(c["at"], len(stmts) - 1)
        stmts[k:k] = [pre, bad]
    return ";\n".join(stmts)


def _annotates_direct(prog):
    for n in qlang.prog_nodes(prog):
        if n["t"] == "call" and n["f"] in ANNOT and n["a"] and n["a"][0]["t"] == "call" and n["a"][0]["f"] == "query_bucket":
            return True
    # or through a variable bound to query_bucket
    bound = {s["var"] for s in prog if s["e"]["t"] == "call" and s["e"]["f"] == "query_bucket"}
    for n in qlang.prog_nodes(prog):
        if n["t"] == "call" and n["f"] in ANNOT and n["a"] and n["a"][0]["t"] == "var" and n["a"][0]["v"] in bound:
            return True
    return False


def run_case(case):
    from aw_core.models import Event
    from aw_query import query

    be = case["backend"]
    w = case["win"]
    S = gen.dt_at(BASE_US + w["s"], w["tz"])
    E = gen.dt_at(BASE_US + w["s"] + w["len"], w["tz2"])
    text = _text(case)
    raised = None
    if case.get("inverted") and w["len"] > 0:
        S, E = E, S  # a window whose end lies before its start: still "the query's start and end instants"
    with stores.store(be) as ds, stores.pinned_now(["aw_query.query2", "aw_query.functions"], BASE_US + case.get("now_s", 10) * 10**6):
        # (the present, for any query code that asks, lies inside the range of the stored events and of most windows)
        with sut(f"{be}: setup"):
            c11.build_store(ds, case["store"], Event)
            before = stores.api_dump(ds)
        try:
            query("q", text, S, E, ds)
        except Exception as ex:
            raised = type(ex).__name__
        with sut(f"{be}: dump after query"):
            after = stores.api_dump(ds)
        if after != before:
            diffs = [f"{b}: {before.get(b)} -> {after.get(b)}" for b in sorted(set(before) | set(after)) if before.get(b) != after.get(b)]
            raise Violation(f"{be}: query {text!r} ({'raised ' + raised if raised else 'returned'}) changed the store: {'; '.join(diffs)[:1500]}")
        if raised is None:
            # the same program followed by a bucket read: what ran before (annotators included) must not colour it
            b = BUCKETS[case.get("qb", 0) % len(BUCKETS)]
            base_text = ";\n".join(qlang.render([s_]) for s_ in case["prog"])
            with sut(f"{be}: program followed by query_bucket"):
                direct = [stores.ev_tuple(e) for e in ds[b].get(starttime=S, endtime=E)]
                dcount = ds[b].get_eventcount(starttime=S, endtime=E)
            try:
                got = [stores.ev_tuple(e) for e in query("q", base_text + f';\nRETURN = query_bucket("{b}")', S, E, ds)]
                gcount = query("q", base_text + f';\nRETURN = query_bucket_eventcount("{b}")', S, E, ds)
            except Exception as ex:
                raise Violation(f"{be}: program {base_text!r} ran, but raised {type(ex).__name__}: {ex} when followed by a bucket read")
            if got != direct or gcount != dcount:
                raise Violation(f"{be}: after program {base_text!r}, query_bucket({b!r}) = {got} (count {gcount}); direct windowed read = {direct} (count {dcount})")
        for b in BUCKETS:
            with sut(f"{be}: direct windowed read"):
                direct = [stores.ev_tuple(e) for e in ds[b].get(starttime=S, endtime=E)]
                dcount = ds[b].get_eventcount(starttime=S, endtime=E)
            with sut(f"{be}: RETURN=query_bucket({b!r})"):
                got = [stores.ev_tuple(e) for e in query("q", f'RETURN = query_bucket("{b}");', S, E, ds)]
                gcount = query("q", f"x = 1; RETURN = query_bucket_eventcount('{b}')", S, E, ds)
            if got != direct:
                raise Violation(f"{be}: query_bucket({b!r}) over window [{w['s']}, {w['s'] + w['len']}] us (offsets {w['tz']}, {w['tz2']} min) = {got}, direct read = {direct}")
            if gcount != dcount:
                raise Violation(f"{be}: query_bucket_eventcount({b!r}) = {gcount}, direct count = {dcount}")
        with sut(f"{be}: final dump"):
            if stores.api_dump(ds) != before:
                raise Violation(f"{be}: store changed by query_bucket reads")
        if case.get("edit") is not None:
            # the store moves on between two runs of the very same query (same name, text and window): an older event is rewritten,
            # re-timed or exchanged for another one - the bucket's size and its newest event stay as they were
            from datetime import timedelta

            k = case["edit"]
            for b in BUCKETS:
                with sut(f"{be}: editing an older event of {b}"):
                    evs = ds[b].get(limit=-1)
                    if len(evs) < 2:
                        continue
                    victim = evs[1 + k % (len(evs) - 1)]
                    if k % 3 == 0:
                        ds[b].replace(victim.id, Event(timestamp=victim.timestamp, duration=victim.duration + timedelta(seconds=1), data={"app": "edited", "title": "edited"}))
                    elif k % 3 == 1:
                        ds[b].replace(victim.id, Event(timestamp=victim.timestamp - timedelta(seconds=1000), duration=victim.duration, data=victim.data))
                    else:
                        ds[b].delete(victim.id)
                        ds[b].insert(Event(timestamp=victim.timestamp - timedelta(seconds=2000), duration=timedelta(seconds=1), data={"app": "exchanged"}))
                    direct = [stores.ev_tuple(e) for e in ds[b].get(starttime=S, endtime=E)]
                    dcount = ds[b].get_eventcount(starttime=S, endtime=E)
                with sut(f"{be}: the same query again after the edit"):
                    got = [stores.ev_tuple(e) for e in query("q", f'RETURN = query_bucket("{b}");', S, E, ds)]
                    gcount = query("q", f"x = 1; RETURN = query_bucket_eventcount('{b}')", S, E, ds)
                if got != direct or gcount != dcount:
                    raise Violation(f"{be}: after an older event of {b!r} was edited (kind {k % 3}), the same query as before returns {got} (count {gcount}); direct windowed read = {direct} (count {dcount})")
    direct_annot = _annotates_direct(case["prog"]) or bool(case["corrupt"])
    classes = [be, "raised" if raised else "returned"]
    if case["corrupt"]:
        classes.append("corrupt_" + case["corrupt"]["kind"])
    if w["len"] == 0:
        classes.append("zero_width")
    if w["s"] % 1000 or w["len"] % 1000:
        classes.append("sub_ms_edges")
    return {"nontrivial": direct_annot, "classes": classes, "evals": 1 + 2 * len(BUCKETS)}


# ---------------------------------------------------------------------------
# a bucket with more events than any sensible page size: query_bucket must still equal the direct read


def extra_phases(tier, seed, jobs):
    tasks = [{"backend": be, "n": n, "per": per, "seed": seed + k} for k, (be, n, per) in enumerate([("sqlite", 10_500, 3), ("peewee", 10_500, 2)] + ([("sqlite", 31_000, 7), ("peewee", 21_000, 1), ("memory", 4_000, 3)] if tier != "quick" else []))]
    return [("large", "phase_large", tasks)]


def _large(task):
    from datetime import timedelta

    from aw_core.models import Event
    from aw_query import query

    be, n, per = task["backend"], task["n"], task["per"]
    with stores.store(be) as ds:
        with sut(f"{be}: filling a bucket with {n} events"):
            b = ds.create_bucket(BUCKETS[0], type="t", client="c", hostname="host1", created=gen.dt_utc(BASE_US))
            # `per` events share each timestamp (ties), a second apart, each 1.5 s long (neighbours overlap)
            b.insert([Event(timestamp=gen.dt_utc(BASE_US + (k // per) * 10**6), duration=timedelta(milliseconds=1500), data={"n": k}) for k in range(n)])
        span = (n // per) * 10**6
        for lo, hi in ((-10**6, span + 10**7), (span // 3 + 250_000, span + 10**7), (-10**6, (span * 2) // 3 + 1)):
            S, E = gen.dt_utc(BASE_US + lo), gen.dt_utc(BASE_US + hi)
            with sut(f"{be}: direct windowed read of a {n}-event bucket"):
                direct = sorted(stores.ev_tuple(e) for e in ds[BUCKETS[0]].get(starttime=S, endtime=E))
                dcount = ds[BUCKETS[0]].get_eventcount(starttime=S, endtime=E)
            with sut(f"{be}: query_bucket on a {n}-event bucket"):
                got = sorted(stores.ev_tuple(e) for e in query("q", f'RETURN = query_bucket("{BUCKETS[0]}");', S, E, ds))
                gcount = query("q", f'RETURN = query_bucket_eventcount("{BUCKETS[0]}");', S, E, ds)
            if got != direct or gcount != dcount:
                missing = [x for x in direct if x not in set(got)][:3]
                extra = [x for x in got if x not in set(direct)][:3]
                raise Violation(
                    f"{be}: bucket of {n} events ({per} per timestamp), window [{lo}, {hi}] us: query_bucket returned {len(got)} events (count {gcount}), "
                    f"the direct windowed read {len(direct)} (count {dcount}); missing {missing} unexpected {extra}"
                )
    return n


def phase_large(task):
    from vlib.runner import Stats, case_hash

    st_ = Stats()
    try:
        n = _large(task)
    except Violation as v:
        st_.failure = {"kind": "large", "case": task, "message": v.msg[:1500]}
        return st_
    st_.evals = 6
    st_.classes[f"{task['backend']}_events"] = n
    st_.nontrivial.add(case_hash(task))
    return st_


def replay_large(task):
    _large(task)
