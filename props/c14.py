"""C14 — migrating a legacy database to the SQLite store loses nothing."""
import hashlib
import json
import os
import shutil
import subprocess
import sys
import time

from hypothesis import strategies as st

from vlib import env, gen, stores
from vlib.runner import Stats, Violation, case_hash, sut

ID = "C14"
RULE = (
    "case = profile in {testing, normal} x legacy content written through PeeweeStorage at its DEFAULT location under a per-case XDG_DATA_HOME: 0..4 buckets "
    "(unicode ids, name given or not, nested data dicts or none, created at any UTC offset) with 0..40 events each (thorough: up to 300, crossing the 100-row chunk; "
    "instants/durations/JSON data from the shared generators; written bucket after bucket or in turns, a few events per bucket per round); the peewee handle is closed and SqliteStorage(profile) is constructed without a file path, which is the "
    "only way the migration runs. Oracle: the new store lists the same bucket ids; per bucket equal type/client/hostname/name/data and created equal as an instant; "
    "events equal as a multiset of (instant floored to ms, duration us, data) - none dropped, none duplicated (ids may be renumbered); the legacy file's logical "
    "contents (every row of every table) and its SHA-256 are unchanged and no journal/WAL sibling is left. In 4 cases of 7 the data directory also holds stale zero-length files (-wal/-shm/-journal of a SQLite store whose main file is gone, a .bak copy). A quarter of the buckets carry a creation time without offset (read as UTC by both stores), 3 cases in 5 run in a local time zone other than UTC, and in a third of the cases the migration runs in a child process that reads every bucket and exits normally, the comparison being made by the next process to open the store. About one bucket in ten is large (400..1300 events, 1..7 per instant, touching or zero-length) and in half the cases a legacy database of the OTHER profile with different contents lies next to it. Non-trivial = >= 1 bucket with >= 2 events and a non-empty data dict, or a large bucket."
)
ASSUMPTIONS = [
    "event ids are not promised to survive the migration",
    "one migration per process at a time (peewee keeps one global database object)",
]
POOL = ["aw-watcher-window_host", "aw-watcher-afk_hôst-ü", "bücket 日本 'q'", "b%4", "AW-Watcher-Window_Host"]  # the last differs from the first in letter case only


def budget(tier):
    return 40 if tier == "quick" else 600


@st.composite
def strategy(draw, tier="quick"):
    big = tier == "thorough"
    nb = draw(st.integers(0, 5))
    buckets = []
    for i in range(nb):
        nmax = 40
        if big and draw(st.integers(0, 5)) == 0:
            nmax = 300
        n = draw(st.one_of(st.integers(0, 5), st.integers(0, nmax)))
        rich = draw(st.booleans())
        evs = []
        if draw(st.integers(0, 11 if not big else 5)) == 0:
            # a large bucket given compactly: `many` events, `per` per instant (equal timestamps), touching neighbours
            buckets.append(
                {
                    "id": POOL[i], "type": "currentwindow", "client": "c", "hostname": "host", "name": None, "data": None,
                    "created_us": 1_500_000_000_000_000, "created_off": 0, "events": [],
                    "many": draw(st.integers(400, 1300)), "per": draw(st.sampled_from([1, 2, 3, 7])), "step_ms": draw(st.sampled_from([1, 1000])), "dur_ms": draw(st.sampled_from([0, 1, 1000, 1500])),
                }
            )
            continue
        for _ in range(n):
            if rich:
                evs.append({"us": draw(gen.instants()), "off": draw(gen.offsets()), "dur_us": draw(gen.durations_us()), "data": draw(gen.json_data(4, surrogates=True))})
            else:
                evs.append({"us": 1_600_000_000_000_000 + draw(st.integers(0, 10**6)) * 1000, "off": 0, "dur_us": draw(st.integers(0, 10**7)), "data": {"k": draw(st.sampled_from("abc"))}})
        buckets.append(
            {
                "id": POOL[i],
                "type": draw(st.sampled_from(["currentwindow", "afkstatus", "ünï"])),
                "client": draw(st.sampled_from(["aw-watcher-window", "c"])),
                "hostname": draw(st.sampled_from(["host", "hôst"])),
                "name": draw(st.one_of(st.none(), st.sampled_from(["A name", "nämé"]))),
                "data": draw(st.one_of(st.none(), st.just({"k": {"n": [1, None, "ü"]}}), gen.json_data(4).filter(lambda d: len(d) > 0))),
                "created_us": draw(gen.instants()),
                "created_off": draw(gen.offsets()),
                "created_naive": draw(st.integers(0, 3)) == 0,  # the watcher passed datetime.utcnow(): no offset in the legacy file, read as UTC by both stores
                "events": evs,
            }
        )
    decoy = draw(st.one_of(st.none(), st.integers(0, 3)))  # also put a legacy database of the OTHER profile next to it
    return {
        "testing": draw(st.booleans()),
        "buckets": buckets,
        "decoy": decoy,
        "interleave": draw(st.sampled_from([0, 0, 1, 2, 7])),
        "tz": draw(st.sampled_from([None, None, "JST-9", "EST5EDT", "NZST-12NZDT,M9.5.0,M4.1.0/3"])),  # the process's local time zone
        "restart": draw(st.integers(0, 2)) == 0,  # migrate in a child process that reads everything and exits; judge what the next process finds
        # what else may lie in the data directory: leftovers of a SQLite store whose main file is gone (killed process, deleted db), a backup copy
        "debris": draw(st.sampled_from([[], [], [], ["{sq}.db-wal", "{sq}.db-shm"], ["{sq}.db-journal"], ["{sq}.db.bak", "notes.txt"], ["{pw}.db-journal"]])),
    }


CHILD = r"""
import os, sys
from vlib import env
env.init()
os.environ["XDG_DATA_HOME"] = os.environ["C14_HOME"]
from aw_datastore import Datastore
from aw_datastore.storages import SqliteStorage
ds = Datastore(SqliteStorage, testing=(sys.argv[1] == "1"))
n = 0
for bid in ds.buckets():
    n += len(ds[bid].get(limit=-1))
    ds[bid].get_eventcount()
print("MIGRATED", n, flush=True)
"""


def _events(b):
    if b.get("many"):
        return [{"us": 1_600_000_000_000_000 + (k // b["per"]) * b["step_ms"] * 1000, "off": 0, "dur_us": b["dur_ms"] * 1000, "data": {"n": k}} for k in range(b["many"])]
    return b["events"]


def known_key(case, v):
    return v.key


def _sha(path):
    with open(path, "rb") as f:
        return hashlib.sha256(f.read()).hexdigest()


def run_case(case):
    import iso8601
    from aw_core.models import Event
    from aw_datastore import Datastore
    from aw_datastore.storages import PeeweeStorage, SqliteStorage

    testing = case["testing"]
    home = env.fresh_dir()
    old_home = os.environ.get("XDG_DATA_HOME")
    os.environ["XDG_DATA_HOME"] = home
    old_tz = os.environ.get("TZ")
    if case.get("tz"):
        os.environ["TZ"] = case["tz"]
        time.tzset()
    new = None
    try:
        if case.get("decoy") is not None:
            with sut("writing the other profile's legacy database"):
                other = Datastore(PeeweeStorage, testing=not testing)
                for k in range(case["decoy"]):
                    h = other.create_bucket(f"decoy-{k}", type="decoy", client="d", hostname="d", created=gen.dt_utc(1_400_000_000_000_000))
                    h.insert([stores.mk_event(Event, {"us": 1_400_000_000_000_000 + j * 10**6, "off": 0, "dur_us": 5, "data": {"decoy": j}}) for j in range(3)])
                stores.close_store(other)
        with sut("writing the legacy (peewee v2) database"):
            ds = Datastore(PeeweeStorage, testing=testing)
            handles = []
            for b in case["buckets"]:
                kw = {}
                if b["name"] is not None:
                    kw["name"] = b["name"]
                if b["data"] is not None:
                    kw["data"] = json.loads(json.dumps(b["data"]))
                created = gen.dt_at(b["created_us"], b["created_off"])
                if b.get("created_naive"):
                    created = gen.dt_utc(b["created_us"]).replace(tzinfo=None)
                h = ds.create_bucket(b["id"], type=b["type"], client=b["client"], hostname=b["hostname"], created=created, **kw)
                handles.append(h)
                if _events(b) and not case.get("interleave"):
                    h.insert([stores.mk_event(Event, e) for e in _events(b)])
            if case.get("interleave"):
                # the watchers wrote in turns: a few events into one bucket, then into the next, and round again
                step = case["interleave"]
                pending = [[stores.mk_event(Event, e) for e in _events(b)] for b in case["buckets"]]
                while any(pending):
                    for h, p in zip(handles, pending):
                        if p:
                            chunk, p[:] = p[:step], p[step:]
                            h.insert(chunk if len(chunk) > 1 else chunk[0])
            stores.close_store(ds)
        ddir = os.path.join(home, "activitywatch", "aw-server")
        legacy = os.path.join(ddir, "peewee-sqlite" + ("-testing" if testing else "") + ".v2.db")
        if not os.path.isfile(legacy):
            raise RuntimeError(f"harness: legacy file not where expected: {os.listdir(ddir)}")
        # a legacy file is one that an OLDER version wrote: rollback-journal mode, whatever today's PeeweeStorage would choose
        import sqlite3 as _sq

        c_ = _sq.connect(legacy)
        c_.execute("PRAGMA journal_mode=DELETE")
        c_.close()
        for pat in case.get("debris", []):
            fn = pat.format(sq="sqlite" + ("-testing" if testing else "") + ".v1", pw="peewee-sqlite" + ("-testing" if testing else "") + ".v2")
            open(os.path.join(ddir, fn), "wb").close()  # zero-length: neither a valid WAL nor a hot journal
        sha_before = _sha(legacy)
        sib_before = set(os.listdir(ddir))
        rows_before = stores.fresh_dump(legacy)
        if case.get("restart"):
            # the migration runs in a process of its own, which then reads every bucket as any user of the data would and exits
            # normally; what counts is what the NEXT process finds in the new store
            envv = dict(os.environ, VERIF_REPO=env.REPO, PYTHONPATH=env.VERIF, PYTHONHASHSEED="0", C14_HOME=home)
            pr = subprocess.run([sys.executable, "-B", "-c", CHILD, "1" if testing else "0"], env=envv, cwd=env.VERIF, stdout=subprocess.PIPE, stderr=subprocess.STDOUT, text=True, timeout=600)
            if pr.returncode != 0 or "MIGRATED" not in pr.stdout:
                raise Violation(f"migration in a child process failed (exit {pr.returncode}): {pr.stdout[-600:]}")
        with sut("SqliteStorage(testing) next to a legacy database (migration)" if not case.get("restart") else "opening the migrated store in the next process"):
            new = Datastore(SqliteStorage, testing=testing)
        with sut("reading the migrated store"):
            got = new.buckets()
        exp_ids = sorted(b["id"] for b in case["buckets"])
        if sorted(got) != exp_ids:
            raise Violation(f"migrated store lists buckets {sorted(got)}, legacy store had {exp_ids}")
        for b in case["buckets"]:
            m = got[b["id"]]
            for k, want in (("type", b["type"]), ("client", b["client"]), ("hostname", b["hostname"]), ("name", b["name"]), ("data", b["data"] or {})):
                if m.get(k) != want:
                    raise Violation(f"bucket {b['id']!r}: {k} migrated as {m.get(k)!r}, legacy had {want!r}", key="bucket_data_lost" if k == "data" else None)
            try:
                cu = gen.to_us(iso8601.parse_date(m["created"]))
            except Exception as ex:
                raise Violation(f"bucket {b['id']!r}: created unreadable after migration: {m.get('created')!r}: {ex}")
            if cu != b["created_us"]:
                raise Violation(f"bucket {b['id']!r}: created migrated as {m['created']!r} ({cu} us), legacy had {b['created_us']} us")
            with sut("reading migrated events"):
                evs = sorted(stores.ev_tuple(e)[1:] for e in new[b["id"]].get(limit=-1))
            want = sorted((gen.floor_ms(e["us"]), e["dur_us"], json.dumps(json.loads(json.dumps(e["data"])), sort_keys=True)) for e in _events(b))
            if evs != want:
                missing = [x for x in want if x not in evs]
                extra = [x for x in evs if x not in want]
                raise Violation(
                    f"bucket {b['id']!r}: {len(want)} legacy events, {len(evs)} after migration; missing {missing[:3]}{'...' if len(missing) > 3 else ''} unexpected {extra[:3]}",
                    key="events_lost" if not evs and want else None,
                )
        stores.close_store(new)
        new = None
        try:
            from aw_datastore.storages import peewee as pw

            pw._db.close()
        except Exception:
            pass
        if stores.fresh_dump(legacy) != rows_before:
            raise Violation("the migration changed the contents of the legacy database")
        if _sha(legacy) != sha_before:
            raise Violation("the migration rewrote the legacy database file (bytes differ)")
        sib = [f for f in os.listdir(ddir) if f.startswith(os.path.basename(legacy)) and f != os.path.basename(legacy) and f not in sib_before]
        if sib:
            raise Violation(f"the migration left files next to the legacy database: {sib}")
    finally:
        if new is not None:
            stores.close_store(new)
        try:
            from aw_datastore.storages import peewee as pw

            pw._db.close()
        except Exception:
            pass
        if old_home is None:
            os.environ.pop("XDG_DATA_HOME", None)
        else:
            os.environ["XDG_DATA_HOME"] = old_home
        if case.get("tz"):
            if old_tz is None:
                os.environ.pop("TZ", None)
            else:
                os.environ["TZ"] = old_tz
            time.tzset()
        shutil.rmtree(home, ignore_errors=True)
    nt = any(len(_events(b)) >= 2 and b["data"] for b in case["buckets"]) or any(b.get("many") for b in case["buckets"])
    classes = ["testing" if testing else "normal", f"buckets_{len(case['buckets'])}"]
    if any(len(_events(b)) > 100 for b in case["buckets"]):
        classes.append("over_100_events")
    if any(len(_events(b)) > 500 for b in case["buckets"]):
        classes.append("over_500_events")
    if case.get("decoy") is not None:
        classes.append("other_profile_legacy_db_present")
    if case.get("interleave") and len(case["buckets"]) > 1:
        classes.append("buckets_written_in_turns")
    if case.get("restart"):
        classes.append("migrated_in_a_child_process_then_reopened")
    if case.get("debris"):
        classes.append("stale_files_in_data_dir")
    if case.get("tz"):
        classes.append("local_zone_not_utc")
    if any(b.get("created_naive") for b in case["buckets"]):
        classes.append("created_without_offset")
    return {"nontrivial": nt, "classes": classes, "evals": 1 + sum(len(_events(b)) for b in case["buckets"])}


# ---------------------------------------------------------------------------
# one very large legacy bucket (thorough only): limits that only bite in the tens of thousands


def extra_phases(tier, seed, jobs):
    if tier != "thorough":
        return []
    return [("huge", "phase_huge", [{"testing": t, "many": m} for t, m in ((True, 70000), (False, 33000))])]


def _huge_case(task):
    b = {"id": POOL[0], "type": "currentwindow", "client": "c", "hostname": "host", "name": None, "data": {"k": 1}, "created_us": 1_500_000_000_000_000, "created_off": 0, "events": [], "many": task["many"], "per": 1, "step_ms": 1, "dur_ms": 1}
    small = {"id": POOL[1], "type": "afkstatus", "client": "c", "hostname": "host", "name": "n", "data": None, "created_us": 1_500_000_000_000_000, "created_off": 60, "events": [{"us": 1_600_000_000_000_000, "off": 0, "dur_us": 5, "data": {"k": "a"}}]}
    return {"testing": task["testing"], "buckets": [b, small], "decoy": None, "interleave": 0}


def phase_huge(task):
    st_ = Stats()
    try:
        run_case(_huge_case(task))
    except Violation as v:
        st_.failure = {"kind": "huge", "case": task, "message": v.msg[:1500]}
        return st_
    st_.evals = task["many"]
    st_.nontrivial.add(case_hash(task))
    st_.classes["huge_bucket_events"] = task["many"]
    return st_


def replay_huge(task):
    run_case(_huge_case(task))
